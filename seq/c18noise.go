package seq

import (
	"context"
	"encoding/json"
	"fmt"
	"strings"
	"sync"

	"github.com/herohde/morlock/pkg/engine"
	"github.com/herohde/morlock/pkg/eval"
	"github.com/herohde/morlock/pkg/search"
	"github.com/herohde/morlock/pkg/search/searchctl"
	"github.com/seekerror/stdlib/pkg/lang"
	"verif/bridge"
	"verif/harness"
)

// Engine words over the noise option: what an analysis returns must depend on the game, the depth
// and - only while the noise option is on - the seed. No table (Hash 0).
func init() {
	Replayers["C18/noise-word"] = func(data json.RawMessage) (bool, string) {
		var w []string
		_ = json.Unmarshal(data, &w)
		msg := runC18Noise(w)
		return msg != "", msg
	}
}

type anaResult struct {
	Depth int
	Score eval.Score
	PV    string
}

var noiseFreeMemo sync.Map // game FEN -> anaResult of a never-noisy engine with another hash seed

// analyseOnce: depth 0 = no depth given with the command (the engine's Depth option applies).
func analyseOnce(ctx context.Context, e *engine.Engine, depth uint) (anaResult, error) {
	opt := searchctl.Options{}
	if depth > 0 {
		opt.DepthLimit = lang.Some(depth)
	}
	out, err := e.Analyze(ctx, opt)
	if err != nil {
		return anaResult{}, err
	}
	last, ok := drain(out)
	if !ok {
		return anaResult{}, fmt.Errorf("analysis did not end")
	}
	_, _ = e.Halt(ctx)
	return anaResult{last.Depth, last.Score, bridge.MovesText(last.Moves)}, nil
}

func noiseEngine(ctx context.Context, seed int64) *engine.Engine {
	return engine.New(ctx, "verif", "verif", search.AlphaBeta{Eval: search.Leaf{Eval: eval.Material{}}}, engine.WithOptions(engine.Options{Hash: 0, Depth: 2}), engine.WithZobrist(seed))
}

// playNoiseWord runs the word on a fresh engine and returns what every analyze op returned,
// together with the noise setting and the game at that moment.
func playNoiseWord(ctx context.Context, word []string, seed int64) (results []anaResult, noisy []bool, games []string, depths []uint, err error) {
	e := noiseEngine(ctx, seed)
	noise := uint(0)
	option := uint(2)    // the Depth option as last set
	effective := uint(0) // the option takes effect at the next reset (a new game)
	for i, op := range word {
		switch {
		case strings.HasPrefix(op, "noise "):
			fmt.Sscan(strings.TrimPrefix(op, "noise "), &noise)
			e.SetNoise(noise)
		case strings.HasPrefix(op, "reset "):
			if err := e.Reset(ctx, strings.TrimPrefix(op, "reset ")); err != nil {
				return nil, nil, nil, nil, fmt.Errorf("op %d (%s): %v", i+1, op, err)
			}
			effective = noise
		case op == "move0":
			ms := e.Board().Position().LegalMoves(e.Board().Turn())
			if len(ms) > 0 {
				if err := e.Move(ctx, bridge.Text(ms[0])); err != nil {
					return nil, nil, nil, nil, fmt.Errorf("op %d (%s): %v", i+1, op, err)
				}
			}
		case strings.HasPrefix(op, "depth "):
			fmt.Sscan(strings.TrimPrefix(op, "depth "), &option)
			e.SetDepth(option)
		case strings.HasPrefix(op, "analyze"):
			given := uint(0) // "analyze": no depth with the command; "analyze N": depth N for this analysis only
			fmt.Sscan(strings.TrimPrefix(op, "analyze"), &given)
			r, err := analyseOnce(ctx, e, given)
			if err != nil {
				return nil, nil, nil, nil, fmt.Errorf("op %d (%s): %v", i+1, op, err)
			}
			if got := e.Options().Depth; got != option {
				return nil, nil, nil, nil, fmt.Errorf("op %d (%s): the engine's Depth option is %d after the analysis, it was set to %d", i+1, op, got, option)
			}
			if given == 0 {
				given = option
			}
			results = append(results, r)
			noisy = append(noisy, effective > 0)
			games = append(games, e.Position())
			depths = append(depths, given)
		}
	}
	return results, noisy, games, depths, nil
}

func runC18Noise(word []string) (msg string) {
	defer func() {
		if r := recover(); r != nil {
			msg = fmt.Sprintf("panic: %v", r)
		}
	}()
	ctx := context.Background()
	r1, noisy, games, depths, err := playNoiseWord(ctx, word, 7)
	if err != nil {
		return err.Error()
	}
	r2, _, _, _, err := playNoiseWord(ctx, word, 7)
	if err != nil {
		return err.Error()
	}
	for i := range r1 {
		if r1[i] != r2[i] {
			return fmt.Sprintf("analysis %d of %q is not reproducible from the seed: %v on one engine, %v on another engine with the same seed and the same history of commands", i+1, word, r1[i], r2[i])
		}
		if noisy[i] {
			continue
		}
		// noise is off for this game: the result is that of an engine that never had noise, whatever its hash seed
		var want anaResult
		key := fmt.Sprint(games[i], " d", depths[i])
		if v, ok := noiseFreeMemo.Load(key); ok {
			want = v.(anaResult)
		} else {
			f := noiseEngine(ctx, 20260917)
			if err := f.Reset(ctx, games[i]); err != nil {
				return "fresh reset failed: " + err.Error()
			}
			if want, err = analyseOnce(ctx, f, depths[i]); err != nil {
				return "fresh analysis failed: " + err.Error()
			}
			noiseFreeMemo.Store(key, want)
		}
		if r1[i] != want {
			return fmt.Sprintf("analysis %d of %q runs with the noise option OFF for its game (%s) and depth %d (given with the command, else the Depth option) but returned %v; a fresh engine that never had noise on (other hash seed) returns %v for that game and depth", i+1, word, games[i], depths[i], r1[i], want)
		}
	}
	return ""
}

func noiseWords(c *harness.Check) {
	alphabet := []string{"noise 5000", "noise 0", "reset r3k2r/8/8/8/8/8/8/R3K2R w KQkq - 3 9", "reset r1b1k3/ppp5/8/4N3/8/8/PPP5/2K5 w - - 0 1", "move0", "analyze", "analyze 1", "analyze 3", "depth 1"}
	var words [][]string
	var gen func(w []string)
	gen = func(w []string) {
		if len(w) > 0 && strings.HasPrefix(w[len(w)-1], "analyze") {
			words = append(words, append([]string(nil), w...))
		}
		if len(w) == c.Pick(5, 6) {
			return
		}
		for _, a := range alphabet {
			if len(w) == 0 && !strings.HasPrefix(a, "reset") && !strings.HasPrefix(a, "noise") {
				continue
			}
			gen(append(w, a))
		}
	}
	gen(nil)
	var cc classCap
	harness.Parallel(len(words), func(i int) {
		if c.Expired() {
			return
		}
		c.Evaluations.Add(1)
		c.Transitions.Add(int64(len(words[i])))
		if msg := runC18Noise(words[i]); msg != "" {
			c.Violation(cc.sig("C18/noise-word", strings.Join(words[i], ";")), msg, "C18/noise-word", words[i])
		}
	})
	c.SetExtra("noise_option_words", len(words))
}
