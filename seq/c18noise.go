package seq

import (
	"context"
	"encoding/json"
	"fmt"
	"strings"
	"sync"

	"github.com/herohde/morlock/pkg/engine"
	"github.com/herohde/morlock/pkg/eval"
	"github.com/herohde/morlock/pkg/search"
	"github.com/herohde/morlock/pkg/search/searchctl"
	"github.com/seekerror/stdlib/pkg/lang"
	"verif/bridge"
	"verif/harness"
)

// Engine words over the noise option: what an analysis returns must depend on the game, the depth
// and - only while the noise option is on - the seed. No table (Hash 0).
func init() {
	Replayers["C18/noise-word"] = func(data json.RawMessage) (bool, string) {
		var w []string
		_ = json.Unmarshal(data, &w)
		msg := runC18Noise(w)
		return msg != "", msg
	}
}

type anaResult struct {
	Depth int
	Score eval.Score
	PV    string
}

var noiseFreeMemo sync.Map // game FEN -> anaResult of a never-noisy engine with another hash seed

func analyseOnce(ctx context.Context, e *engine.Engine) (anaResult, error) {
	out, err := e.Analyze(ctx, searchctl.Options{DepthLimit: lang.Some(uint(2))})
	if err != nil {
		return anaResult{}, err
	}
	last, ok := drain(out)
	if !ok {
		return anaResult{}, fmt.Errorf("analysis did not end")
	}
	_, _ = e.Halt(ctx)
	return anaResult{last.Depth, last.Score, bridge.MovesText(last.Moves)}, nil
}

func noiseEngine(ctx context.Context, seed int64) *engine.Engine {
	return engine.New(ctx, "verif", "verif", search.AlphaBeta{Eval: search.Leaf{Eval: eval.Material{}}}, engine.WithOptions(engine.Options{Hash: 0}), engine.WithZobrist(seed))
}

// playNoiseWord runs the word on a fresh engine and returns what every analyze op returned,
// together with the noise setting and the game at that moment.
func playNoiseWord(ctx context.Context, word []string, seed int64) (results []anaResult, noisy []bool, games []string, err error) {
	e := noiseEngine(ctx, seed)
	noise := uint(0)
	effective := uint(0) // the option takes effect at the next reset (a new game)
	for i, op := range word {
		switch {
		case strings.HasPrefix(op, "noise "):
			fmt.Sscan(strings.TrimPrefix(op, "noise "), &noise)
			e.SetNoise(noise)
		case strings.HasPrefix(op, "reset "):
			if err := e.Reset(ctx, strings.TrimPrefix(op, "reset ")); err != nil {
				return nil, nil, nil, fmt.Errorf("op %d (%s): %v", i+1, op, err)
			}
			effective = noise
		case op == "move0":
			ms := e.Board().Position().LegalMoves(e.Board().Turn())
			if len(ms) > 0 {
				if err := e.Move(ctx, bridge.Text(ms[0])); err != nil {
					return nil, nil, nil, fmt.Errorf("op %d (%s): %v", i+1, op, err)
				}
			}
		case op == "analyze":
			r, err := analyseOnce(ctx, e)
			if err != nil {
				return nil, nil, nil, fmt.Errorf("op %d (%s): %v", i+1, op, err)
			}
			results = append(results, r)
			noisy = append(noisy, effective > 0)
			games = append(games, e.Position())
		}
	}
	return results, noisy, games, nil
}

func runC18Noise(word []string) (msg string) {
	defer func() {
		if r := recover(); r != nil {
			msg = fmt.Sprintf("panic: %v", r)
		}
	}()
	ctx := context.Background()
	r1, noisy, games, err := playNoiseWord(ctx, word, 7)
	if err != nil {
		return err.Error()
	}
	r2, _, _, err := playNoiseWord(ctx, word, 7)
	if err != nil {
		return err.Error()
	}
	for i := range r1 {
		if r1[i] != r2[i] {
			return fmt.Sprintf("analysis %d of %q is not reproducible from the seed: %v on one engine, %v on another engine with the same seed and the same history of commands", i+1, word, r1[i], r2[i])
		}
		if noisy[i] {
			continue
		}
		// noise is off for this game: the result is that of an engine that never had noise, whatever its hash seed
		var want anaResult
		if v, ok := noiseFreeMemo.Load(games[i]); ok {
			want = v.(anaResult)
		} else {
			f := noiseEngine(ctx, 20260917)
			if err := f.Reset(ctx, games[i]); err != nil {
				return "fresh reset failed: " + err.Error()
			}
			if want, err = analyseOnce(ctx, f); err != nil {
				return "fresh analysis failed: " + err.Error()
			}
			noiseFreeMemo.Store(games[i], want)
		}
		if r1[i] != want {
			return fmt.Sprintf("analysis %d of %q runs with the noise option OFF for its game (%s) but returned %v; an engine that never had noise on (other hash seed) returns %v", i+1, word, games[i], r1[i], want)
		}
	}
	return ""
}

func noiseWords(c *harness.Check) {
	alphabet := []string{"noise 5000", "noise 0", "reset r3k2r/8/8/8/8/8/8/R3K2R w KQkq - 3 9", "reset r1b1k3/ppp5/8/4N3/8/8/PPP5/2K5 w - - 0 1", "move0", "analyze"}
	var words [][]string
	var gen func(w []string)
	gen = func(w []string) {
		if len(w) > 0 && w[len(w)-1] == "analyze" {
			words = append(words, append([]string(nil), w...))
		}
		if len(w) == c.Pick(5, 6) {
			return
		}
		for _, a := range alphabet {
			if len(w) == 0 && !strings.HasPrefix(a, "reset") && !strings.HasPrefix(a, "noise") {
				continue
			}
			gen(append(w, a))
		}
	}
	gen(nil)
	var cc classCap
	harness.Parallel(len(words), func(i int) {
		if c.Expired() {
			return
		}
		c.Evaluations.Add(1)
		c.Transitions.Add(int64(len(words[i])))
		if msg := runC18Noise(words[i]); msg != "" {
			c.Violation(cc.sig("C18/noise-word", strings.Join(words[i], ";")), msg, "C18/noise-word", words[i])
		}
	})
	c.SetExtra("noise_option_words", len(words))
}
