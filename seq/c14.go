package seq

import (
	"context"
	"encoding/json"
	"fmt"
	"strings"

	"github.com/herohde/morlock/pkg/board"
	"github.com/herohde/morlock/pkg/board/fen"
	"github.com/herohde/morlock/pkg/engine"
	"github.com/herohde/morlock/pkg/eval"
	"github.com/herohde/morlock/pkg/search"
	"verif/corpus"
	"verif/harness"
	"verif/ref"
)

func init() {
	Checks["C14"] = checkC14
	Replayers["C14/codec"] = func(data json.RawMessage) (bool, string) {
		var s string
		_ = json.Unmarshal(data, &s)
		msg := codecRoundTrip(s)
		return msg != "", msg
	}
	Replayers["C14/engine"] = func(data json.RawMessage) (bool, string) {
		var d struct {
			FEN string
			Ops []string
		}
		_ = json.Unmarshal(data, &d)
		ctx := context.Background()
		e := newPlainEngine(ctx)
		if err := e.Reset(ctx, d.FEN); err != nil {
			return true, "Reset failed: " + err.Error()
		}
		g, _ := ref.GameFromFEN(d.FEN)
		for i, op := range d.Ops {
			if op == "takeback" {
				if err := e.TakeBack(ctx); err != nil {
					return true, "TakeBack failed"
				}
				g.Pop()
			} else {
				rm, ok := g.Cur().FindMove(op)
				if !ok || e.Move(ctx, op) != nil {
					return true, "Move " + op + " failed"
				}
				g.Push(rm)
			}
			if got, want := e.Position(), g.FEN(); got != want {
				return true, fmt.Sprintf("after op %d (%s): engine reports %q, standard FEN is %q", i+1, op, got, want)
			}
		}
		return false, "engine FEN equals the standard FEN after every operation"
	}
}

func newPlainEngine(ctx context.Context) *engine.Engine {
	return engine.New(ctx, "verif", "verif", search.AlphaBeta{Eval: search.Leaf{Eval: eval.Material{}}})
}

// codecRoundTrip: Decode(s) then Encode must reproduce the canonical string s, and the decoded
// values must re-encode/decode identically.
func codecRoundTrip(s string) string {
	pos, turn, np, fm, err := fen.Decode(s)
	if err != nil || pos == nil {
		return fmt.Sprintf("canonical FEN rejected: %v", err)
	}
	if got := fen.Encode(pos, turn, np, fm); got != s {
		return fmt.Sprintf("Encode(Decode(s)) = %q", got)
	}
	p2, t2, np2, fm2, err := fen.Decode(fen.Encode(pos, turn, np, fm))
	if err != nil || p2 == nil || *p2 != *pos || t2 != turn || np2 != np || fm2 != fm {
		return "Decode(Encode(x)) differs from x"
	}
	return ""
}

func checkC14(c *harness.Check) {
	mustAnchors(c)
	clocks := []int{0, 1, 49, 99, 100, 101, 1<<31 - 1}
	c.Rule = fmt.Sprintf("(a) every node of the BFS closures and of the castling/e.p./promotion families x half-move clocks %v x full-move numbers %v x both sides to move: the reference FEN decodes and re-encodes to the same string and Decode(Encode(position value)) is the identical struct/side/clocks; (b) every Move/TakeBack sequence to depth n through Engine.Reset/Move/TakeBack from fortress, castling, e.p., promotion and start roots with non-trivial clocks: Engine.Position() equals the reference game's FEN after every operation; (b') king/knight/rook sequences of up to 5-6 moves followed by 0..n take-backs on three roots, the FEN asked for only once before and once after; (c) the engine set up on four positions x both sides to move x 19 half-move clocks x 15 full-move numbers (around every integer width): reports the FEN it was given, the standard FEN after one move, the given FEN after taking it back. distinct_nontrivial = distinct FEN strings round-tripped", clocks, clocks)
	visit := func(n *Node) {
		for _, white := range []bool{true, false} {
			q := *n.Ref
			q.White = white
			for _, hm := range clocks {
				for _, fm := range clocks {
					s := q.FEN(hm, fm)
					c.Evaluations.Add(1)
					if msg := codecRoundTrip(s); msg != "" {
						c.Violation("C14/codec "+s, msg+" for "+s, "C14/codec", s)
					}
				}
			}
			// value round trip starting from the implementation's own position value
			t := board.White
			if !white {
				t = board.Black
			}
			enc := fen.Encode(n.Pos, t, 7, 11)
			p2, t2, np2, fm2, err := fen.Decode(enc)
			if err != nil || p2 == nil || *p2 != *n.Pos || t2 != t || np2 != 7 || fm2 != 11 {
				c.Violation("C14/value "+enc, "Decode(Encode(x)) differs from x for "+enc, "C14/codec", enc)
			}
			if white == n.Ref.White && enc != n.Ref.FEN(7, 11) {
				c.Violation("C14/encode "+enc, fmt.Sprintf("Encode gives %q, standard FEN is %q", enc, n.Ref.FEN(7, 11)), "C14/codec", n.Ref.FEN(7, 11))
			}
		}
		c.Traces.Add(1)
		c.Distinct(n.Ref.FEN(0, 1))
	}
	Walk(c, seedNodes(corpus.Tagged("big")), c.Pick(2, 3), visit, nil)
	Walk(c, seedNodes(corpus.NotTagged("big")), c.Pick(3, 4), visit, nil)
	WalkFlat(c, corpus.CornerFamily, visit, nil)
	WalkFlat(c, corpus.PromotionFamily, visit, nil)
	if c.Thorough() {
		WalkFlat(c, func(e func(*ref.Pos)) { corpus.EnPassantFamily(false, e) }, visit, nil)
	}
	c.Sample(map[string]any{"fen": "r3k2r/p1ppqpb1/bn2pnp1/3PN3/1p2P3/2N2Q1p/PPPBBPPP/R3K2R w KQkq - 99 2147483647", "law": "Encode(Decode(s)) == s"})

	// (b) engine-reported FEN along game histories
	type job struct {
		fen    string
		depth  int
		filter func(g *ref.Game, m ref.Move) bool
	}
	backRank := func(g *ref.Game, m ref.Move) bool {
		return (m.Piece == ref.K || m.Piece == ref.R) && m.From/8 == m.To/8
	}
	jobs := []job{
		{"k7/p7/P7/8/8/7p/7P/7K w - - 0 1", c.Pick(8, 10), nil},
		{"k7/p7/P7/8/8/7p/7P/7K b - - 97 140", c.Pick(6, 8), nil},
		{"r3k2r/8/8/8/8/8/8/R3K2R w KQkq - 12 30", c.Pick(4, 5), backRank},
		{"r3k2r/8/8/8/8/8/8/R3K2R b KQkq - 3 7", 3, nil},
		{"rnbqkbnr/ppp1pppp/8/8/3pP3/8/PPPP1PPP/RNBQKBNR b KQkq e3 0 3", 2, nil},
		{"1n2k3/P7/8/8/8/8/7p/4K1N1 w - - 5 60", c.Pick(3, 4), nil},
		{corpus.Initial, c.Pick(3, 4), nil},
		{corpus.Kiwipete, c.Pick(2, 3), nil},
		{"8/2p5/3p4/KP5r/1R3p1k/8/4P1P1/8 w - - 10 50", c.Pick(3, 4), nil},
	}
	var cc classCap
	harness.Parallel(len(jobs), func(i int) {
		j := jobs[i]
		ctx := context.Background()
		e := newPlainEngine(ctx)
		if err := e.Reset(ctx, j.fen); err != nil {
			c.Violation("C14/reset "+j.fen, "Reset failed: "+err.Error(), "note", nil)
			return
		}
		g, _ := ref.GameFromFEN(j.fen)
		var ops []string
		compare := func() {
			c.Evaluations.Add(1)
			c.Transitions.Add(1)
			if got, want := e.Position(), g.FEN(); got != want {
				c.Violation(cc.sig("C14/engine", j.fen+" "+strings.Join(ops, ",")), fmt.Sprintf("engine reports %q, standard FEN is %q after %v from %s", got, want, ops, j.fen),
					"C14/engine", map[string]any{"FEN": j.fen, "Ops": append([]string(nil), ops...)})
			}
		}
		compare()
		var rec func(d int)
		rec = func(d int) {
			if d == 0 || c.Expired() {
				c.Traces.Add(1)
				return
			}
			for _, rm := range g.Cur().Legal() {
				if j.filter != nil && !j.filter(g, rm) {
					continue
				}
				if err := e.Move(ctx, rm.String()); err != nil {
					c.Violation(cc.sig("C14/move-rejected", j.fen+" "+strings.Join(ops, ",")+","+rm.String()), "engine rejected a legal move: "+err.Error(), "note", nil)
					continue
				}
				g.Push(rm)
				ops = append(ops, rm.String())
				c.States.Add(1)
				compare()
				rec(d - 1)
				if err := e.TakeBack(ctx); err != nil {
					c.Violation(cc.sig("C14/takeback", j.fen), "TakeBack failed", "note", nil)
					return
				}
				g.Pop()
				ops = append(ops, "takeback")
				compare()
				ops = ops[:len(ops)-2]
			}
		}
		rec(j.depth)
	})
	// (b') the same games observed SPARSELY: the FEN is asked for once at the start and once at the
	// end of a sequence of moves and take-backs, never in between (a report that is remembered and
	// served again must still be the report of the game as it stands)
	sparseRoots := []string{"k7/p7/P7/8/8/7p/7P/7K w - - 0 1", "r3k2r/8/8/8/8/8/8/R3K2R w KQkq - 12 30", corpus.Initial}
	type sparseJob struct {
		fen  string
		path []string
	}
	var sjobs []sparseJob
	for _, f := range sparseRoots {
		g, err := ref.GameFromFEN(f)
		if err != nil {
			continue
		}
		filter := func(m ref.Move) bool {
			return m.Piece == ref.K || m.Piece == ref.N || (m.Piece == ref.R && f != corpus.Initial)
		}
		var path []string
		var gen func(d int)
		gen = func(d int) {
			if len(path) > 0 {
				sjobs = append(sjobs, sparseJob{f, append([]string(nil), path...)})
			}
			if d == 0 {
				return
			}
			n := 0
			for _, rm := range g.Cur().Legal() {
				if !filter(rm) {
					continue
				}
				if n++; n > 3 {
					break
				}
				g.Push(rm)
				path = append(path, rm.String())
				gen(d - 1)
				path = path[:len(path)-1]
				g.Pop()
			}
		}
		gen(c.Pick(5, 6))
	}
	harness.Parallel(len(sjobs), func(i int) {
		j := sjobs[i]
		ctx := context.Background()
		for back := 0; back <= len(j.path); back++ {
			e := newPlainEngine(ctx)
			if err := e.Reset(ctx, j.fen); err != nil {
				return
			}
			g, _ := ref.GameFromFEN(j.fen)
			_ = e.Position() // the one observation before the sequence
			ok := true
			for _, t := range j.path {
				rm, found := g.Cur().FindMove(t)
				if !found || e.Move(ctx, t) != nil {
					ok = false
					break
				}
				g.Push(rm)
			}
			for k := 0; ok && k < back; k++ {
				if e.TakeBack(ctx) != nil {
					ok = false
					break
				}
				g.Pop()
			}
			if !ok {
				continue
			}
			c.Evaluations.Add(1)
			if got, want := e.Position(), g.FEN(); got != want {
				ops := append(append([]string(nil), j.path...), fmt.Sprintf("takeback x%d", back))
				c.Violation(cc.sig("C14/engine-sparse", j.fen+" "+strings.Join(ops, ",")), fmt.Sprintf("asked once before and once after %v from %s the engine reports %q, the standard FEN is %q", ops, j.fen, got, want), "note", nil)
			}
		}
	})
	c.SetExtra("sparsely_observed_sequences", len(sjobs))
	// (c) the engine set up with every combination of clocks and both sides to move: it reports the
	// FEN it was given, the standard FEN after one move, and the given FEN again after taking it back
	var sets []string
	for _, body := range []string{"k7/p7/P7/8/8/7p/7P/7K %s - -", "r3k2r/8/8/8/8/8/8/R3K2R %s KQkq -", "rnbqkbnr/pppppppp/8/8/8/8/PPPPPPPP/RNBQKBNR %s KQkq -", "4k3/8/8/8/8/8/8/R3K3 %s Q -"} {
		for _, side := range []string{"w", "b"} {
			for _, hm := range []int{0, 1, 2, 3, 49, 79, 98, 99, 100, 101, 127, 128, 149, 255, 256, 32767, 32768, 65535, 65536} {
				for _, fm := range []int{0, 1, 2, 40, 50, 127, 128, 140, 255, 256, 32767, 32768, 65535, 65536, 1<<31 - 2} {
					sets = append(sets, fmt.Sprintf(body+" %d %d", side, hm, fm))
				}
			}
		}
	}
	harness.Parallel(len(sets), func(i int) {
		f := sets[i]
		ctx := context.Background()
		g, err := ref.GameFromFEN(f)
		if err != nil {
			return
		}
		e := newPlainEngine(ctx)
		if err := e.Reset(ctx, f); err != nil {
			c.Violation(cc.sig("C14/reset", f), "Reset rejects the canonical FEN: "+err.Error(), "C14/engine", map[string]any{"FEN": f, "Ops": []string{}})
			return
		}
		c.Evaluations.Add(1)
		c.States.Add(1)
		if got := e.Position(); got != f {
			c.Violation(cc.sig("C14/engine-setup", f), fmt.Sprintf("set up with %q the engine reports %q", f, got), "C14/engine", map[string]any{"FEN": f, "Ops": []string{}})
			return
		}
		if ms := g.Cur().Legal(); len(ms) > 0 {
			if err := e.Move(ctx, ms[0].String()); err == nil {
				g.Push(ms[0])
				if got, want := e.Position(), g.FEN(); got != want {
					c.Violation(cc.sig("C14/engine-setup", f+" "+ms[0].String()), fmt.Sprintf("engine reports %q, standard FEN is %q after %s from %s", got, want, ms[0], f), "C14/engine", map[string]any{"FEN": f, "Ops": []string{ms[0].String()}})
				}
				if err := e.TakeBack(ctx); err == nil {
					if got := e.Position(); got != f {
						c.Violation(cc.sig("C14/engine-setup", f+" takeback"), fmt.Sprintf("after a move and its take-back the engine reports %q, set up with %q", got, f), "C14/engine", map[string]any{"FEN": f, "Ops": []string{ms[0].String(), "takeback"}})
					}
				}
			}
		}
	})
	c.SetExtra("engine_setups_clock_grid", len(sets))
	c.Sample(map[string]any{"engine_history": "r3k2r/8/8/8/8/8/8/R3K2R w KQkq - 12 30", "ops": []string{"e1g1", "e8c8", "takeback"}, "expect": "2kr3r/8/8/8/8/8/8/R4RK1 w - - 14 31 then back to clock 13"})
	c.Finish()
}
