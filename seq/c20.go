package seq

import (
	"context"
	"encoding/json"
	"fmt"
	"math"
	"reflect"
	"strings"
	"sync/atomic"
	"unsafe"

	"github.com/herohde/morlock/cmd/bernstein/bernstein"
	"github.com/herohde/morlock/cmd/sargon/sargon"
	"github.com/herohde/morlock/cmd/turochamp/turochamp"
	"github.com/herohde/morlock/pkg/board"
	"github.com/herohde/morlock/pkg/engine"
	"github.com/herohde/morlock/pkg/eval"
	"verif/bridge"
	"verif/corpus"
	"verif/harness"
	"verif/ref"
)

func init() {
	Checks["C20"] = checkC20
	Replayers["C20/node"] = func(data json.RawMessage) (bool, string) {
		var d struct {
			FEN   string
			Moves []string
		}
		_ = json.Unmarshal(data, &d)
		b, bm, g, err := twinBoards(d.FEN, d.Moves)
		if err != nil {
			return false, err.Error()
		}
		_, msg := c20Oracle(context.Background(), b, bm, g, nil)
		return msg != "", msg
	}
	Replayers["C20/book"] = func(data json.RawMessage) (bool, string) {
		msgs := bookOracle(nil)
		return len(msgs) > 0, strings.Join(msgs, "; ")
	}
}

// mirror flips the board top to bottom and swaps the colours.
func mirrorPos(p *ref.Pos) *ref.Pos {
	q := &ref.Pos{EP: -1, White: !p.White}
	for s, v := range p.Sq {
		q.Sq[(7-s/8)*8+s%8] = -v
	}
	if p.Castle&ref.WK != 0 {
		q.Castle |= ref.BK
	}
	if p.Castle&ref.WQ != 0 {
		q.Castle |= ref.BQ
	}
	if p.Castle&ref.BK != 0 {
		q.Castle |= ref.WK
	}
	if p.Castle&ref.BQ != 0 {
		q.Castle |= ref.WQ
	}
	if p.EP >= 0 {
		q.EP = (7-p.EP/8)*8 + p.EP%8
	}
	return q
}

func mirrorText(t string) string {
	b := []byte(t)
	b[1] = '1' + ('8' - b[1])
	b[3] = '1' + ('8' - b[3])
	return string(b)
}

// twinBoards plays the moves on a board and the mirrored moves on the mirrored board.
func twinBoards(f string, moves []string) (*board.Board, *board.Board, *ref.Game, error) {
	g, err := ref.GameFromFEN(f)
	if err != nil {
		return nil, nil, nil, err
	}
	b := bridge.NewBoard(f, 0)
	bm := bridge.NewBoard(mirrorPos(g.Cur()).FEN(g.CurClock(), g.CurFull()), 0)
	for _, t := range moves {
		rm, ok := g.Cur().FindMove(t)
		m, ok2 := bridge.FindImpl(b.Position(), b.Turn(), t)
		mm, ok3 := bridge.FindImpl(bm.Position(), bm.Turn(), mirrorText(t))
		if !ok || !ok2 || !ok3 || !b.PushMove(m) || !bm.PushMove(mm) {
			return nil, nil, nil, fmt.Errorf("cannot replay %s", t)
		}
		g.Push(rm)
	}
	return b, bm, g, nil
}

func finite(v eval.Pawns) bool {
	f := float64(v)
	return !math.IsNaN(f) && !math.IsInf(f, 0)
}

func turoValue(k int8) float64 {
	switch k {
	case ref.K:
		return 100
	case ref.Q:
		return 10
	case ref.R:
		return 5
	case ref.B:
		return 3.5
	case ref.N:
		return 3
	case ref.P:
		return 1
	}
	return 0
}

// c20Oracle evaluates every clause of C20 at one node (board b with its history, mirrored twin
// bm, reference game g). pts is SARGON's evaluation state reset at the walk's root (nil: skip).
func c20Oracle(ctx context.Context, b, bm *board.Board, g *ref.Game, pts *sargon.Points) (cls string, msg string) {
	defer func() {
		if r := recover(); r != nil {
			cls, msg = "panic", fmt.Sprintf("panic: %v", r)
		}
	}()
	type ev struct {
		name string
		e    eval.Evaluator
	}
	for _, e := range []ev{{"material", eval.Material{}}, {"turochamp", turochamp.Eval{}}, {"turochamp-material", turochamp.Material{}}, {"bernstein/20", bernstein.Eval{Factor: 20}}, {"bernstein/1", bernstein.Eval{Factor: 1}}, {"bernstein/0", bernstein.Eval{Factor: 0}}} {
		v := e.e.Evaluate(ctx, b)
		if !finite(v) {
			return "not-finite", fmt.Sprintf("%s evaluation is %v", e.name, v)
		}
		if bm != nil {
			if vm := e.e.Evaluate(ctx, bm); vm != v {
				return "colour", fmt.Sprintf("%s evaluation is %v but %v on the colour-mirrored game", e.name, v, vm)
			}
		}
	}
	own := &sargon.Points{}
	own.Reset(ctx, b)
	if v := own.Evaluate(ctx, b); !finite(v) {
		return "not-finite", fmt.Sprintf("sargon evaluation is %v", v)
	}
	if pts != nil {
		if v := pts.Evaluate(ctx, b); !finite(v) {
			return "not-finite", fmt.Sprintf("sargon evaluation (reset at the root) is %v", v)
		}
	}

	legal := map[string]ref.Move{}
	for _, m := range g.Cur().Legal() {
		legal[m.String()] = m
	}
	// BERNSTEIN plausible moves
	pm := bernstein.FindPlausibleMoves(b)
	seen := map[string]bool{}
	for _, m := range pm {
		t := bridge.Text(m)
		rm, ok := legal[t]
		if !ok || bridge.Move(rm) != m {
			return "plausible-illegal", fmt.Sprintf("plausible move %s is not a legal move", bridge.Key(m))
		}
		if seen[t] {
			return "plausible-dup", fmt.Sprintf("plausible move %s listed twice", t)
		}
		seen[t] = true
	}
	implLegalMoves := b.Position().LegalMoves(b.Turn())
	for _, lim := range []int{1, 3, 7} {
		_, pick := bernstein.PlausibleMoveTable{Limit: lim}.Explore(ctx, b)
		n := 0
		for _, m := range implLegalMoves {
			if pick(m) {
				n++
			}
		}
		if n > lim {
			return "plausible-limit", fmt.Sprintf("branch limit %d but %d moves selected", lim, n)
		}
		if n == 0 && len(legal) > 0 {
			return "plausible-empty", fmt.Sprintf("branch limit %d: no move selected although %d legal moves exist", lim, len(legal))
		}
	}
	// the main-search filters are consulted by searches that are being halted, too: a cancelled
	// context changes nothing about which moves are legal
	if len(legal) > 0 {
		dead, cancel := context.WithCancel(ctx)
		cancel()
		_, pick := bernstein.PlausibleMoveTable{Limit: 7}.Explore(dead, b)
		_, keepDead := sargon.SkipUnderPromotions(dead, b)
		np, nk := 0, 0
		for _, m := range implLegalMoves {
			if pick(m) {
				np++
			}
			if keepDead(m) {
				nk++
			}
		}
		if np == 0 || nk == 0 {
			return "filter-empty-when-halted", fmt.Sprintf("with a cancelled context the main-search filters select %d (plausible moves) / %d (no under-promotion) of %d legal moves", np, nk, len(legal))
		}
	}
	// SARGON: no under-promotion keeps at least one move
	_, keep := sargon.SkipUnderPromotions(ctx, b)
	n := 0
	for _, m := range implLegalMoves {
		if keep(m) {
			n++
			if m.IsPromotion() && m.Promotion != board.Queen {
				return "underpromotion", "an under-promotion was selected"
			}
		} else if !(m.IsPromotion() && m.Promotion != board.Queen) {
			return "underpromotion", fmt.Sprintf("%s was filtered out although it is not an under-promotion", bridge.Text(m))
		}
	}
	if n == 0 && len(legal) > 0 {
		return "underpromotion-empty", "no move kept"
	}
	// TUROCHAMP considerable moves, evaluated after the move as the search does; compared with
	// the four rules read on the reference model
	_, considerable := turochamp.ConsiderableMovesOnly(ctx, b)
	var prev *ref.Move
	if len(g.Moves) > 0 {
		prev = &g.Moves[len(g.Moves)-1]
	}
	for _, m := range implLegalMoves {
		rm, ok := legal[bridge.Text(m)]
		if !ok {
			continue // C01's business
		}
		if !b.PushMove(m) {
			continue
		}
		got := considerable(m)
		got2 := turochamp.IsConsiderableMove(m, b)
		b.PopMove()
		next := g.Cur().Make(rm)
		mate := next.InCheck(next.White) && len(next.Legal()) == 0
		want := mate
		if rm.Kind == ref.Capture || rm.Kind == ref.CapturePromotion {
			if prev != nil && (prev.Captured != 0 || prev.Kind == ref.EnPassant) && prev.To == rm.To {
				want = true
			}
			if turoValue(rm.Piece) < turoValue(rm.Captured) {
				want = true
			}
			if !next.Attacked(int(rm.To), next.White) { // cannot be recaptured
				want = true
			}
		}
		if got != want || got2 != want {
			return "considerable", fmt.Sprintf("move %s considerable=%v/%v, the four rules say %v", bridge.Text(m), got, got2, want)
		}
	}
	return "", ""
}

// plausibleCount is used for the statistics only: a panic is c20Oracle's business.
func plausibleCount(b *board.Board) (n int) {
	defer func() { _ = recover() }()
	return len(bernstein.FindPlausibleMoves(b))
}

func privateMoves(book any) map[string][]board.Move {
	v := reflect.ValueOf(book)
	if v.Kind() == reflect.Interface || v.Kind() == reflect.Ptr {
		v = v.Elem()
	}
	f := v.FieldByName("moves")
	return reflect.NewAt(f.Type(), unsafe.Pointer(f.UnsafeAddr())).Elem().Interface().(map[string][]board.Move)
}

// bookOracle checks every entry of both books.
func bookOracle(c *harness.Check) []string {
	var out []string
	ctx := context.Background()
	check := func(name string, moves map[string][]board.Move, find func(string) []board.Move) {
		if len(moves) == 0 {
			out = append(out, name+": book is empty")
		}
		for k, ms := range moves {
			rp, _, _, err := ref.ParseFEN(k + " 0 1")
			if err != nil || !corpus.Valid(rp) {
				// the key format is the book's own business: the semantic check through Find (below) still applies
				if c != nil {
					c.AddExtra("book_keys_not_readable_as_fen_prefix", 1)
				}
				continue
			}
			legal := map[string]bool{}
			for _, m := range rp.Legal() {
				legal[m.String()] = true
			}
			if len(ms) == 0 {
				out = append(out, fmt.Sprintf("%s: key %q has no reply", name, k))
			}
			for _, m := range ms {
				if c != nil {
					c.Evaluations.Add(1)
					c.Distinct(name + k + bridge.Text(m))
				}
				if !legal[bridge.Text(m)] {
					out = append(out, fmt.Sprintf("%s: reply %s is not legal in %q", name, bridge.Text(m), k))
				}
			}
			got := find(k + " 5 9")
			if len(got) != len(ms) {
				out = append(out, fmt.Sprintf("%s: Find(%q) returns %d moves, the book holds %d", name, k, len(got), len(ms)))
			}
		}
	}
	sb := sargon.NewBook()
	check("sargon", privateMoves(sb), func(f string) []board.Move { m, _ := sb.Find(ctx, f); return m })
	bb := bernstein.NewBook()
	check("bernstein", privateMoves(bb), func(f string) []board.Move { m, _ := bb.Find(ctx, f); return m })
	return out
}

// bookThroughFind checks books through their public face only: whatever Find returns for a
// position must be legal in THAT position, for every position reachable by any move order.
func bookThroughFind(c *harness.Check) []string {
	var out []string
	ctx := context.Background()
	start, _, _, _ := ref.ParseFEN(corpus.Initial)
	check := func(name string, find func(string) []board.Move, p *ref.Pos, path string) {
		c.Evaluations.Add(1)
		legal := map[string]bool{}
		for _, m := range p.Legal() {
			legal[m.String()] = true
		}
		for _, m := range find(p.FEN(0, 1)) {
			if !legal[bridge.Text(m)] {
				out = append(out, fmt.Sprintf("%s: Find returns %s for the position after [%s] (%s), where it is not legal", name, bridge.Text(m), strings.TrimSpace(path), p.FEN(0, 1)))
			}
		}
	}
	// (1) the two bundled books on every position within d plies of the start position
	sb, bb := sargon.NewBook(), bernstein.NewBook()
	depth := c.Pick(4, 5)
	var walk func(p *ref.Pos, d int, path string)
	walk = func(p *ref.Pos, d int, path string) {
		check("sargon", func(f string) []board.Move { m, _ := sb.Find(ctx, f); return m }, p, path)
		check("bernstein", func(f string) []board.Move { m, _ := bb.Find(ctx, f); return m }, p, path)
		// the same placement with the OTHER side to move (a set-up position, or a tempo lost somewhere)
		if q := (&ref.Pos{Sq: p.Sq, Castle: p.Castle, EP: -1, White: !p.White}); corpus.Valid(q) {
			check("sargon", func(f string) []board.Move { m, _ := sb.Find(ctx, f); return m }, q, path+" (other side to move)")
			check("bernstein", func(f string) []board.Move { m, _ := bb.Find(ctx, f); return m }, q, path+" (other side to move)")
		}
		if d == 0 {
			return
		}
		for _, m := range p.Legal() {
			walk(p.Make(m), d-1, path+" "+m.String())
		}
	}
	walk(start, depth, "")
	// (2) the generic book built from ALL lines of <= 5 moves over an opening alphabet that
	// contains en-passant captures and transpositions, queried on every position reachable by
	// any move order over the same alphabet (<= 6 moves)
	alphabet := map[string]bool{}
	for _, t := range []string{"e2e4", "e4e5", "d2d4", "d4d5", "a7a6", "d7d5", "e7e5", "e7e6", "c7c5", "e5d6", "d5e6", "d5c6", "d5e4", "e5d4", "g1f3", "g8f6", "f7f5", "e5f6", "h2h3", "h7h6"} {
		alphabet[t] = true
	}
	var lines []engine.Line
	var gen func(p *ref.Pos, line []string)
	gen = func(p *ref.Pos, line []string) {
		if len(line) > 0 {
			lines = append(lines, append(engine.Line(nil), line...))
		}
		if len(line) == 5 {
			return
		}
		for _, m := range p.Legal() {
			if alphabet[m.String()] {
				gen(p.Make(m), append(line, m.String()))
			}
		}
	}
	gen(start, nil)
	gb, err := engine.NewBook(lines)
	if err != nil {
		return append(out, "generic book: NewBook rejected legal lines: "+err.Error())
	}
	c.SetExtra("generic_book_lines", len(lines))
	// the positions asked about also arise by single pawn steps (the same placement as a book
	// position, but without its en passant target)
	for _, t := range []string{"e2e3", "e3e4", "d2d3", "d3d4", "d7d6", "d6d5", "e6e5", "f7f6", "f6f5", "c7c6", "c6c5"} {
		alphabet[t] = true
	}
	var walk2 func(p *ref.Pos, d int, path string)
	walk2 = func(p *ref.Pos, d int, path string) {
		check("generic book", func(f string) []board.Move { m, _ := gb.Find(ctx, f); return m }, p, path)
		if d == 0 {
			return
		}
		for _, m := range p.Legal() {
			if alphabet[m.String()] {
				walk2(p.Make(m), d-1, path+" "+m.String())
			}
		}
	}
	walk2(start, 6, "")
	if len(out) > 8 {
		out = out[:8]
	}
	return out
}

func checkC20(c *harness.Check) {
	mustAnchors(c)
	c.Rule = "every node WITH ITS HISTORY of push-sequence walks from all seeds (the heuristics read last moves, castled flags, moved pieces, move number) plus every K+X v K placement (quick: white king in the a1-d1-d4 triangle) and the back-rank-check family (boxed king checked by a rook from every square, one own piece on every square: many positions with a single legal reply): all evaluations finite without panic; generic material / TUROCHAMP / TUROCHAMP material / BERNSTEIN (factor 20,1,0) equal on the colour-mirrored twin game; FindPlausibleMoves legal with exact metadata and duplicate-free; PlausibleMoveTable{1,3,7} selects <= limit and >= 1; SkipUnderPromotions keeps exactly the non-under-promotions and >= 1; ConsiderableMovesOnly (evaluated post-move like the search) equals the four rules read on the reference model; every entry of both opening books (private map read by reflection) legal in its keyed position and returned by Find; through the public face: whatever Find returns on any position within 4-5 plies of the start, and on the same placement with the other side to move (bundled books) / reachable by any move order over an opening alphabet with e.p. captures and transpositions (generic NewBook built from all lines of <= 5 moves; the query walk also takes single pawn steps, which reach book placements without their e.p. target) is legal in that position. Plus the en-passant family (e.p. x king x slider, incl. positions whose only legal move is the en-passant capture). Plus mobility extremes: a white queen / rook / bishop on every square of an otherwise empty board, every subset of its rays ending in a black knight / rook / bishop on the last square (a queen in the centre: 27 moves, up to 8 of them captures), kings placed legally, both sides to move and colour-mirrored. distinct_nontrivial = distinct (seed, selected-plausible-count at limit 7, #considerable, in-check) classes + book entries"
	for _, m := range bookOracle(c) {
		c.Violation("C20/book "+m, m, "C20/book", nil)
	}
	for _, m := range bookThroughFind(c) {
		c.Violation("C20/book-find "+m, m, "C20/book", nil)
	}
	c.Sample(map[string]any{"book": "sargon", "key": "rnbqkbnr/pppppppp/8/8/8/8/PPPPPPPP/RNBQKBNR w KQkq -", "replies": []string{"e2e4", "d2d4"}})

	var cc classCap
	ctx := context.Background()
	type job struct {
		fen   string
		depth int
	}
	var jobs []job
	for _, s := range corpus.Seeds {
		d := c.Pick(2, 3)
		if strings.Contains(s.Tags, "big") {
			d = c.Pick(1, 2)
		}
		if strings.Contains(s.Tags, "low") {
			d = c.Pick(4, 6)
		}
		jobs = append(jobs, job{s.FEN, d})
	}
	jobs = append(jobs, job{"r3k2r/pppq1ppp/2npbn2/2b1p3/2B1P3/2NPBN2/PPPQ1PPP/R3K2R w KQkq - 4 8", c.Pick(2, 3)}, job{"rnbqkbnr/pppp1ppp/8/4p3/4P3/8/PPPP1PPP/RNBQKBNR w KQkq e6 0 2", c.Pick(2, 3)})
	type sub struct {
		w     *HistWalk
		depth int
	}
	var subs []sub
	for _, j := range jobs {
		j := j
		mk := func() *HistWalk {
			var bm *board.Board
			var mpath []string
			pts := &sargon.Points{}
			w := &HistWalk{C: c, Root: j.fen, ForkAt: -1}
			w.OnPush = func(b *board.Board, g *ref.Game, path []string) {
				// keep the mirrored twin in step: rebuild when the path is not an extension
				if bm == nil || len(path) != len(mpath)+1 || strings.Join(path[:len(mpath)], " ") != strings.Join(mpath, " ") {
					rp, hm, fm, _ := ref.ParseFEN(j.fen)
					bm = bridge.NewBoard(mirrorPos(rp).FEN(hm, fm), 0)
					mpath = mpath[:0]
					rb := bridge.NewBoard(j.fen, 0)
					pts.Reset(ctx, rb)
					for _, t := range path[:len(path)-1] {
						mm, _ := bridge.FindImpl(bm.Position(), bm.Turn(), mirrorText(t))
						bm.PushMove(mm)
						mpath = append(mpath, t)
					}
				}
				t := path[len(path)-1]
				mm, ok := bridge.FindImpl(bm.Position(), bm.Turn(), mirrorText(t))
				if !ok || !bm.PushMove(mm) {
					c.Violation(cc.sig("C20/mirror-move", j.fen+" "+strings.Join(path, " ")), "the mirrored move is rejected on the mirrored board", "C20/node", map[string]any{"FEN": j.fen, "Moves": append([]string(nil), path...)})
					bm = nil
					return
				}
				mpath = append(mpath, t)
				c.Evaluations.Add(1)
				c.States.Add(1)
				if cls, msg := c20Oracle(ctx, b, bm, g, pts); msg != "" {
					c.Violation(cc.sig("C20/"+cls, j.fen+" "+strings.Join(path, " ")), msg+" at "+j.fen+" moves "+strings.Join(path, " "), "C20/node", map[string]any{"FEN": j.fen, "Moves": append([]string(nil), path...)})
				}
				c.Distinct(fmt.Sprint(j.fen[:10], plausibleCount(b) > 7, g.Cur().InCheck(g.Cur().White), len(g.Cur().Legal()) == 0))
			}
			w.OnPop = func(b *board.Board, g *ref.Game, path []string) {
				if bm != nil && len(mpath) == len(path)+1 {
					bm.PopMove()
					mpath = mpath[:len(mpath)-1]
				} else {
					bm = nil
				}
			}
			return w
		}
		// the root itself
		if b, bm, g, err := twinBoards(j.fen, nil); err == nil {
			c.States.Add(1)
			if cls, msg := c20Oracle(ctx, b, bm, g, nil); msg != "" {
				c.Violation(cc.sig("C20/"+cls, j.fen), msg+" at "+j.fen, "C20/node", map[string]any{"FEN": j.fen, "Moves": []string{}})
			}
		}
		if j.depth >= 2 {
			for _, sw := range mk().Split(1) {
				w := mk()
				w.Prefix = sw.Prefix
				subs = append(subs, sub{w, j.depth})
			}
		} else {
			subs = append(subs, sub{mk(), j.depth})
		}
	}
	harness.Parallel(len(subs), func(i int) { subs[i].w.Run(subs[i].depth) })
	c.Sample(map[string]any{"node": corpus.Kiwipete, "history": []string{"e1g1", "e8c8"}, "mirror_root": mirrorPos(rootNode(corpus.Kiwipete).Ref).FEN(0, 1), "mirror_history": []string{"e8g8", "e1c1"}})

	// small material, no history
	WalkFlat(c, corpus.KXvK, func(n *Node) {
		if wk := n.Ref.KingSq(true); !c.Thorough() && !(wk%8 <= 3 && wk/8 <= wk%8) {
			return // quick: white king in the a1-d1-d4 triangle only
		}
		f := n.Ref.FEN(0, 1)
		b := bridge.NewBoard(f, 0)
		bm := bridge.NewBoard(mirrorPos(n.Ref).FEN(0, 1), 0)
		c.Evaluations.Add(1)
		if cls, msg := c20Oracle(ctx, b, bm, ref.NewGame(n.Ref, 0, 1), nil); msg != "" {
			c.Violation(cc.sig("C20/"+cls, f), msg+" at "+f, "C20/node", map[string]any{"FEN": f, "Moves": []string{}})
		}
	}, nil)
	// positions with very few legal replies: back-rank checks answered by interposition only
	WalkFlat(c, corpus.BackRankFamily, func(n *Node) {
		f := n.Ref.FEN(0, 1)
		b := bridge.NewBoard(f, 0)
		bm := bridge.NewBoard(mirrorPos(n.Ref).FEN(0, 1), 0)
		c.Evaluations.Add(1)
		if cls, msg := c20Oracle(ctx, b, bm, ref.NewGame(n.Ref, 0, 1), nil); msg != "" {
			c.Violation(cc.sig("C20/"+cls, f), msg+" at "+f, "C20/node", map[string]any{"FEN": f, "Moves": []string{}})
		}
		c.Distinct(fmt.Sprint("backrank", len(n.Ref.Legal())))
	}, nil)
	// en passant around a king and a slider (the capture that is the only legal move, the capture that
	// is illegal because of a pin along the rank, ...): filters that treat en passant apart meet it here
	var nEP, nEPLegal atomic.Int64
	WalkFlat(c, func(e func(*ref.Pos)) { corpus.EnPassantFamily(false, e) }, func(n *Node) {
		if n.Ref.KingSq(true) < 0 || n.Ref.KingSq(false) < 0 {
			return // (the family also serves move generation with one king only: not a legal position)
		}
		nEPLegal.Add(1)
		if !c.Thorough() && nEP.Add(1)%3 != 0 && len(n.Ref.Legal()) > 2 {
			return // quick: every third position, and every position with at most two legal moves
		}
		f := n.Ref.FEN(0, 1)
		b := bridge.NewBoard(f, 0)
		bm := bridge.NewBoard(mirrorPos(n.Ref).FEN(0, 1), 0)
		c.Evaluations.Add(1)
		if cls, msg := c20Oracle(ctx, b, bm, ref.NewGame(n.Ref, 0, 1), nil); msg != "" {
			c.Violation(cc.sig("C20/"+cls, f), msg+" at "+f, "C20/node", map[string]any{"FEN": f, "Moves": []string{}})
		}
	}, nil)
	c.SetExtra("en_passant_family_positions_with_both_kings", nEPLegal.Load())
	// one piece with as many moves and captures as the board allows (tables and bounds indexed by a
	// number of moves meet their extremes here)
	var nExt atomic.Int64
	WalkFlat(c, func(e func(*ref.Pos)) { corpus.MobilityExtremes(c.Thorough(), e) }, func(n *Node) {
		f := n.Ref.FEN(0, 1)
		b := bridge.NewBoard(f, 0)
		bm := bridge.NewBoard(mirrorPos(n.Ref).FEN(0, 1), 0)
		c.Evaluations.Add(1)
		nExt.Add(1)
		if cls, msg := c20Oracle(ctx, b, bm, ref.NewGame(n.Ref, 0, 1), nil); msg != "" {
			c.Violation(cc.sig("C20/"+cls, f), msg+" at "+f, "C20/node", map[string]any{"FEN": f, "Moves": []string{}})
		}
	}, nil)
	c.SetExtra("mobility_extreme_positions", nExt.Load())
	c.Traces.Store(c.Evaluations.Load())
	c.Finish()
}
