package seq

import (
	"context"
	"encoding/json"
	"fmt"
	"strings"

	"github.com/herohde/morlock/pkg/board"
	"github.com/herohde/morlock/pkg/eval"
	"github.com/herohde/morlock/pkg/search"
	"github.com/herohde/morlock/pkg/search/searchctl"
	"github.com/seekerror/stdlib/pkg/lang"
	"verif/bridge"
	"verif/harness"
	"verif/ref"
)

// C11 through the iterative-deepening driver (what an engine really runs): the same position
// analysed three times to depth d on ONE table. Every iteration reported must carry the
// table-free score of its depth and a variation whose first move is worth that score.

type c11iterCase struct {
	FEN   string
	Kind  string
	Depth int
	Size  uint64
}

func init() {
	Replayers["C11/iterative"] = func(data json.RawMessage) (bool, string) {
		var cs c11iterCase
		_ = json.Unmarshal(data, &cs)
		vm := newValueMemo(0)
		vm.impl = true
		msg, _ := runC11Iter(context.Background(), cs, vm)
		return msg != "", msg
	}
}

func runC11Iter(ctx context.Context, cs c11iterCase, vm *valueMemo) (msg string, checked int) {
	defer func() {
		if r := recover(); r != nil {
			msg = fmt.Sprintf("panic: %v", r)
		}
	}()
	s, _ := ttSearch(cs.Kind, &posRec{byHash: map[board.ZobristHash]string{}})
	tt := search.NewTranspositionTable(ctx, cs.Size)
	rp, _, _, err := ref.ParseFEN(cs.FEN)
	if err != nil {
		return "bad FEN", 0
	}
	for run := 1; run <= 3; run++ {
		b := bridge.NewBoard(cs.FEN, 0)
		l := &searchctl.Iterative{Root: s}
		h, out := l.Launch(ctx, b, tt, eval.Random{}, searchctl.Options{DepthLimit: lang.Some(uint(cs.Depth))})
		var pvs []search.PV
		for pv := range out {
			pvs = append(pvs, pv)
		}
		final := h.Halt()
		if len(pvs) == 0 || pvs[len(pvs)-1].Depth != final.Depth {
			pvs = append(pvs, final)
		}
		for _, pv := range pvs {
			want, ok := vm.value(ctx, cs.Kind, cs.FEN, pv.Depth)
			if !ok {
				continue
			}
			checked++
			if rs, ok := bridge.RefScore(pv.Score); !ok || !rs.Eq(want) {
				return fmt.Sprintf("analysis %d of the same position on one table: depth %d reported with score %v, without a table it is %v", run, pv.Depth, pv.Score, bridge.ImplScore(want)), checked
			}
			if len(pv.Moves) == 0 {
				if len(rp.Legal()) > 0 {
					return fmt.Sprintf("analysis %d: depth %d reported without a variation", run, pv.Depth), checked
				}
				continue
			}
			rm, legal := rp.FindMove(bridge.Text(pv.Moves[0]))
			if !legal {
				return fmt.Sprintf("analysis %d: depth %d variation starts with the illegal move %s", run, pv.Depth, bridge.Text(pv.Moves[0])), checked
			}
			child := rp.Make(rm)
			if (rm.Kind == ref.Capture || rm.Kind == ref.CapturePromotion || rm.Kind == ref.Promotion) && ref.Insufficient(child) {
				continue
			}
			cv, ok := vm.value(ctx, cs.Kind, child.FEN(0, 1), pv.Depth-1)
			if !ok {
				continue
			}
			if got := cv.Inc().Neg(); !got.Eq(want) {
				return fmt.Sprintf("analysis %d of the same position on one table: the depth-%d variation %s starts with a move worth %v; the position is worth %v (no longer a best move)", run, pv.Depth, bridge.MovesText(pv.Moves), bridge.ImplScore(got), bridge.ImplScore(want)), checked
			}
		}
	}
	return "", checked
}

func iterativeFamily(c *harness.Check, vm *valueMemo) {
	// every position within 2 plies of Kiwipete (quick) / of every capture-rich root (thorough), 1 ply of the others
	seen := map[string]bool{}
	var fens []string
	var walk func(p *ref.Pos, d int)
	walk = func(p *ref.Pos, d int) {
		f := p.FEN(0, 1)
		if !seen[f] && len(p.Legal()) > 0 {
			seen[f] = true
			fens = append(fens, f)
		}
		if d == 0 {
			return
		}
		for _, m := range p.Legal() {
			walk(p.Make(m), d-1)
		}
	}
	for i, r := range ttRoots {
		if !stringsContains(r.Tags, "rich") {
			continue
		}
		rp, _, _, _ := ref.ParseFEN(r.FEN)
		d := 1
		if c.Thorough() || i == firstRich() {
			d = 2
		}
		walk(rp, d)
	}
	var cases []c11iterCase
	for _, f := range fens {
		cases = append(cases, c11iterCase{f, "static", 3, 1 << 20})
	}
	for i, f := range fens {
		if i%8 == 0 || c.Thorough() {
			cases = append(cases, c11iterCase{f, "quiescence", 2, 1 << 20}, c11iterCase{f, "static", 3, 512})
		}
	}
	var cc classCap
	harness.Parallel(len(cases), func(i int) {
		if c.Expired() {
			return
		}
		msg, n := runC11Iter(context.Background(), cases[i], vm)
		c.Evaluations.Add(int64(n))
		c.AddExtra("iterative_reports_checked", int64(n))
		if msg != "" {
			c.Violation(cc.sig("C11/iterative", fmt.Sprintf("%s d=%d size=%d %s", cases[i].Kind, cases[i].Depth, cases[i].Size, cases[i].FEN)), msg+fmt.Sprintf("\n    case: %+v", cases[i]), "C11/iterative", cases[i])
		}
	})
	c.SetExtra("iterative_positions", len(fens))
}

func stringsContains(s, sub string) bool {
	for i := 0; i+len(sub) <= len(s); i++ {
		if s[i:i+len(sub)] == sub {
			return true
		}
	}
	return false
}

func firstRich() int {
	for i, r := range ttRoots {
		if stringsContains(r.Tags, "rich") {
			return i
		}
	}
	return -1
}

// Through the ENGINE: a game is played on an engine with a table (Hash 1 MB) by analysing to
// depth d and playing the first move of the variation, for a few plies; a second engine without
// a table is given the same moves. At every position the two must report the same score, and
// the move played must be worth it.
type c11engCase struct {
	FEN    string
	Depth  int
	Plies  int
	Before string `json:",omitempty"` // an earlier game both engines were set up with and analysed before this one (a new game starts with Reset)
}

func init() {
	Replayers["C11/engine"] = func(data json.RawMessage) (bool, string) {
		var cs c11engCase
		_ = json.Unmarshal(data, &cs)
		vm := newValueMemo(0)
		vm.impl = true
		msg, _ := runC11Engine(context.Background(), cs, vm)
		return msg != "", msg
	}
}

func runC11Engine(ctx context.Context, cs c11engCase, vm *valueMemo) (msg string, checked int) {
	defer func() {
		if r := recover(); r != nil {
			msg = fmt.Sprintf("panic: %v", r)
		}
	}()
	mk := func(hash uint) *engineUnderTest {
		e := newTableEngine(ctx, hash)
		if err := e.Reset(ctx, cs.FEN); err != nil {
			panic(err)
		}
		return &engineUnderTest{e}
	}
	with, without := mk(1), mk(0)
	if cs.Before != "" {
		// the earlier game: same engines, set up and analysed, then the game under test is set up
		for _, e := range []*engineUnderTest{with, without} {
			if err := e.e.Reset(ctx, cs.Before); err != nil {
				return "earlier game rejected: " + err.Error(), 0
			}
			if _, err := e.analyse(ctx, cs.Depth); err != nil {
				return "analysis of the earlier game failed: " + err.Error(), 0
			}
			if err := e.e.Reset(ctx, cs.FEN); err != nil {
				return "reset rejected: " + err.Error(), 0
			}
		}
	}
	g, err := ref.GameFromFEN(cs.FEN)
	if err != nil {
		return "bad FEN", 0
	}
	for ply := 0; ply < cs.Plies; ply++ {
		if len(g.Cur().Legal()) == 0 || g.DrawNow() {
			break
		}
		a, err := with.analyse(ctx, cs.Depth)
		if err != nil {
			return fmt.Sprintf("ply %d: analysis with the table failed: %v", ply, err), checked
		}
		b, err := without.analyse(ctx, cs.Depth)
		if err != nil {
			return fmt.Sprintf("ply %d: analysis without a table failed: %v", ply, err), checked
		}
		checked++
		if a.Score != b.Score || a.Depth != b.Depth {
			return fmt.Sprintf("after %v: the engine with a table reports depth %d score %v, the engine without reports depth %d score %v", g.Moves, a.Depth, a.Score, b.Depth, b.Score), checked
		}
		if len(a.Moves) == 0 {
			return fmt.Sprintf("after %v: no variation from the engine with a table", g.Moves), checked
		}
		rm, legal := g.Cur().FindMove(bridge.Text(a.Moves[0]))
		if !legal {
			return fmt.Sprintf("after %v: the engine with a table proposes the illegal move %s", g.Moves, bridge.Text(a.Moves[0])), checked
		}
		// history matters at the engine level (repetitions): value the move only where no draw can arise in the tree
		if g.Len()+cs.Depth < 8 && g.CurClock()+cs.Depth < 100 {
			child := g.Cur().Make(rm)
			if !((rm.Kind == ref.Capture || rm.Kind == ref.CapturePromotion || rm.Kind == ref.Promotion) && ref.Insufficient(child)) {
				if want, ok := bridge.RefScore(b.Score); ok {
					if cv, ok := vm.value(ctx, "static", child.FEN(0, 1), a.Depth-1); ok {
						if got := cv.Inc().Neg(); !got.Eq(want) {
							return fmt.Sprintf("after %v: the engine with a table proposes %s, worth %v; the position is worth %v", g.Moves, rm, bridge.ImplScore(got), bridge.ImplScore(want)), checked
						}
					}
				}
			}
		}
		for _, e := range []*engineUnderTest{with, without} {
			if err := e.e.Move(ctx, rm.String()); err != nil {
				return "move rejected: " + err.Error(), checked
			}
		}
		g.Push(rm)
	}
	return "", checked
}

func engineGames(c *harness.Check, vm *valueMemo) {
	var cases []c11engCase
	for _, r := range ttRoots {
		if len(r.Moves) > 0 {
			continue
		}
		d := c.Pick(3, 4)
		if stringsContains(r.Tags, "rich") {
			d = c.Pick(2, 3)
		}
		cases = append(cases, c11engCase{FEN: r.FEN, Depth: d, Plies: 4}, c11engCase{FEN: r.FEN, Depth: d - 1, Plies: 6})
		// a new game after one whose values were shaped by its history: the same placement two and one
		// half-moves from the fifty-move draw (every quiet line there is worth 0)
		if f := strings.Fields(r.FEN); len(f) == 6 {
			for _, clock := range []string{"98", "99"} {
				f[4] = clock
				cases = append(cases, c11engCase{FEN: r.FEN, Depth: d, Plies: 2, Before: strings.Join(f, " ")})
			}
		}
	}
	var cc classCap
	harness.Parallel(len(cases), func(i int) {
		if c.Expired() {
			return
		}
		msg, n := runC11Engine(context.Background(), cases[i], vm)
		c.Evaluations.Add(int64(n))
		c.AddExtra("engine_game_positions_checked", int64(n))
		if msg != "" {
			c.Violation(cc.sig("C11/engine", fmt.Sprintf("d=%d %s", cases[i].Depth, cases[i].FEN)), msg+fmt.Sprintf("\n    case: %+v", cases[i]), "C11/engine", cases[i])
		}
	})
}
