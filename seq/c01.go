package seq

import (
	"context"
	"encoding/json"
	"fmt"
	"sort"
	"strings"

	"github.com/herohde/morlock/pkg/board"
	"github.com/herohde/morlock/pkg/engine"
	"github.com/herohde/morlock/pkg/eval"
	"github.com/herohde/morlock/pkg/search"
	"verif/bridge"
	"verif/corpus"
	"verif/harness"
	"verif/ref"
)

func init() {
	Checks["C01"] = checkC01
	Replayers["C01/engine-line"] = func(data json.RawMessage) (bool, string) {
		var d []string
		if json.Unmarshal(data, &d) != nil || len(d) < 2 {
			return false, "bad replay data"
		}
		_, msg := engineLine(d[0], d[1:])
		return msg != "", msg
	}
	Replayers["C01/engine"] = func(data json.RawMessage) (bool, string) {
		var d []string
		if json.Unmarshal(data, &d) != nil || len(d) != 2 {
			return false, "bad replay data"
		}
		_, msg := engineTriple(d[0], d[1])
		return msg != "", msg
	}
	Replayers["C01/moves"] = func(data json.RawMessage) (bool, string) {
		var f string
		_ = json.Unmarshal(data, &f)
		rp, _, _, err := ref.ParseFEN(f)
		if err != nil {
			return false, "bad FEN in replay"
		}
		msg := compareMoves(refNode(rp))
		return msg != "", msg
	}
	Replayers["C01/perft"] = func(data json.RawMessage) (bool, string) {
		var d struct {
			FEN   string
			Depth int
			Want  int64
		}
		_ = json.Unmarshal(data, &d)
		n := rootNode(d.FEN)
		got := implPerft(n.Pos, n.Turn, d.Depth)
		return got != d.Want, fmt.Sprintf("implementation perft(%d)=%d, published %d", d.Depth, got, d.Want)
	}
}

func moveList(ms []board.Move) string {
	var ss []string
	for _, m := range ms {
		ss = append(ss, bridge.Key(m))
	}
	sort.Strings(ss)
	return strings.Join(ss, " ")
}

// compareMoves is the C01 oracle at one node; returns "" if the property holds there.
func compareMoves(n *Node) string {
	var want []board.Move
	wantSet := map[uint64]bool{}
	for _, m := range n.Ref.Legal() {
		bm := bridge.Move(m)
		want = append(want, bm)
		wantSet[packMove(bm)] = true
	}
	got := implLegal(n.Pos, n.Turn)
	triples := map[[3]uint8]bool{}
	gotSet := map[uint64]bool{}
	for _, m := range got {
		t := [3]uint8{uint8(m.From), uint8(m.To), uint8(m.Promotion)}
		if triples[t] {
			return fmt.Sprintf("move %s listed more than once", bridge.Text(m))
		}
		triples[t] = true
		gotSet[packMove(m)] = true
	}
	bad := len(got) != len(want)
	if !bad {
		for k := range wantSet {
			if !gotSet[k] {
				bad = true
				break
			}
		}
	}
	if bad {
		var missing, extra []board.Move
		for _, m := range want {
			if !gotSet[packMove(m)] {
				missing = append(missing, m)
			}
		}
		for _, m := range got {
			if !wantSet[packMove(m)] {
				extra = append(extra, m)
			}
		}
		return fmt.Sprintf("legal moves differ: missing/misdescribed [%s] unexpected [%s]", moveList(missing), moveList(extra))
	}
	// The convenience entry point must say the same.
	lm := n.Pos.LegalMoves(n.Turn)
	if len(lm) != len(got) {
		return fmt.Sprintf("LegalMoves lists %d moves, filtered pseudo-legal moves %d", len(lm), len(got))
	}
	for i := range lm {
		if lm[i] != got[i] {
			return "LegalMoves differs from filtered pseudo-legal moves"
		}
	}
	return ""
}

func implPerft(pos *board.Position, turn board.Color, d int) int64 {
	if d == 0 {
		return 1
	}
	var n int64
	for _, m := range pos.PseudoLegalMoves(turn) {
		if next, ok := pos.Move(m); ok {
			if d == 1 {
				n++
			} else {
				n += implPerft(next, turn.Opponent(), d-1)
			}
		}
	}
	return n
}

func shapeOf(p *ref.Pos) string {
	// a coarse class of the node for the distinct-nontrivial count: legal-move kinds present
	kinds := map[ref.Kind]bool{}
	for _, m := range p.Legal() {
		kinds[m.Kind] = true
	}
	var ks []int
	for k := range kinds {
		ks = append(ks, int(k))
	}
	sort.Ints(ks)
	return fmt.Sprint(ks, p.InCheck(p.White))
}

// engineTriple: Engine.Move(text) on an engine set up with f accepts exactly the legal triples and
// then reaches the reference successor.
func engineTriple(f, text string) (cls, msg string) {
	ctx := context.Background()
	e := engine.New(ctx, "verif", "verif", search.AlphaBeta{Eval: search.Leaf{Eval: eval.Material{}}}, engine.WithOptions(engine.Options{Hash: 0}))
	if err := e.Reset(ctx, f); err != nil {
		return "", "" // not a position an engine can be set up with (C14/C19 deal with that)
	}
	g, gerr := ref.GameFromFEN(f)
	if gerr != nil {
		return "", ""
	}
	rm, ok := g.Cur().FindMove(text)
	err := e.Move(ctx, text)
	switch {
	case ok && err != nil:
		return "engine-rejects", fmt.Sprintf("the engine rejects the legal move %s at %s: %v", text, f, err)
	case !ok && err == nil:
		return "engine-accepts", fmt.Sprintf("the engine accepts %q at %s, which is not a legal (origin, destination, promotion) triple there", text, f)
	case ok:
		g.Push(rm)
		if got, want := e.Position(), g.FEN(); got != want {
			return "engine-plays", fmt.Sprintf("asked to play %s at %s the engine reaches %q; that move leads to %q", text, f, got, want)
		}
	}
	return "", ""
}

// engineLine: every move of a legal line is accepted by Engine.Move and leads where it should.
func engineLine(f string, line []string) (cls, msg string) {
	ctx := context.Background()
	e := engine.New(ctx, "verif", "verif", search.AlphaBeta{Eval: search.Leaf{Eval: eval.Material{}}}, engine.WithOptions(engine.Options{Hash: 0}))
	if err := e.Reset(ctx, f); err != nil {
		return "", ""
	}
	g, err := ref.GameFromFEN(f)
	if err != nil {
		return "", ""
	}
	for i, t := range line {
		rm, ok := g.Cur().FindMove(t)
		if !ok {
			return "", ""
		}
		if err := e.Move(ctx, t); err != nil {
			return "engine-rejects", fmt.Sprintf("the engine rejects the legal move %s (move %d of the line %v from %s, half-move clock %d): %v", t, i+1, line, f, g.CurClock(), err)
		}
		g.Push(rm)
		if got, want := e.Position(), g.FEN(); got != want {
			return "engine-plays", fmt.Sprintf("after %v from %s the engine reports %q; the line leads to %q", line[:i+1], f, got, want)
		}
	}
	return "", ""
}

func checkC01(c *harness.Check) {
	mustAnchors(c)
	c.Rule = "lock-step BFS closure from tagged seeds (de-duplicated on position value) + completely enumerated families (K+X v K, castling under one attacker, en passant x king x slider, corner pieces with rights, promotion fronts, collinear pins); every node: {filtered PseudoLegalMoves} and LegalMoves vs reference legal set incl. kind/piece/capture, no duplicates; the same at the engine's door (Engine.Move with text: every origin/destination pair of a legal move x every promotion suffix on the promotion, corner and en-passant families - accepted exactly when legal, and then the game is the reference successor; and every legal two-move line from four roots with the half-move clock at 98..149 - the game goes on past 100); distinct_nontrivial = nodes with >=1 legal move counted by distinct (set of move kinds, in-check) class x seed"
	visit := func(n *Node) {
		c.Evaluations.Add(1)
		c.Traces.Add(1)
		if msg := compareMoves(n); msg != "" {
			c.Violation("C01/moves "+n.Ref.FEN(0, 1), msg+" at "+n.Where(), "C01/moves", n.Ref.FEN(0, 1))
		}
	}
	classify := func(n *Node) {
		visit(n)
		c.Distinct(n.Root[:8] + shapeOf(n.Ref))
	}
	big := seedNodes(corpus.Tagged("big"))
	small := seedNodes(corpus.NotTagged("big"))
	Walk(c, big, c.Pick(2, 3), classify, nil)
	Walk(c, small, c.Pick(3, 4), classify, nil)
	c.Sample(map[string]any{"seed": corpus.Kiwipete, "bfs_depth": c.Pick(2, 3)})

	WalkFlat(c, corpus.KXvK, visit, nil)
	WalkFlat(c, corpus.CastlingUnderAttack, classify, nil)
	WalkFlat(c, func(e func(*ref.Pos)) { corpus.EnPassantFamily(c.Thorough(), e) }, visit, nil)
	WalkFlat(c, corpus.CornerFamily, classify, nil)
	WalkFlat(c, corpus.PromotionFamily, classify, nil)
	WalkFlat(c, corpus.PinFamily, visit, nil)
	WalkFlat(c, corpus.BackRankFamily, classify, nil)
	c.Sample(map[string]any{"family": "castling-under-attack", "example": "r3k2r/8/8/8/8/8/6n1/R3K2R w KQ - 0 1"})

	// what an ENGINE treats as legal: a move arrives as text (origin, destination, promotion letter)
	// and Engine.Move matches it against the generated moves. For every node of the promotion,
	// corner (castling) and en-passant families, every origin/destination pair of a legal move with
	// every promotion suffix: accepted exactly when that triple is a legal move, and then the
	// engine's game is the reference successor of exactly that move.
	var ecc classCap
	engineVisit := func(n *Node) {
		f := n.Ref.FEN(0, 1)
		pairs := map[string]bool{}
		for _, rm := range n.Ref.Legal() {
			pairs[rm.String()[:4]] = true
		}
		for pair := range pairs {
			for _, suffix := range []string{"", "q", "r", "b", "n"} {
				c.Evaluations.Add(1)
				if cls, msg := engineTriple(f, pair+suffix); msg != "" {
					c.Violation(ecc.sig("C01/"+cls, f+" "+pair+suffix), msg, "C01/engine", []string{f, pair + suffix})
				}
			}
		}
	}
	// ... and late in a long game: the fifty-move draw has to be CLAIMED, the game goes on past 100
	// half-moves, and every legal move - pawn moves and captures that restart the clock included - is
	// still a move the engine must accept (two plies deep from roots with the clock at 98..149)
	for _, f := range []string{"r3k2r/4p3/8/8/8/8/4P3/R3K2R w KQkq - 98 80", "r3k2r/4p3/8/8/8/8/4P3/R3K2R b KQkq - 99 80", "4k3/8/8/3pP3/8/8/8/4K2R w K d6 100 90", "k7/p7/P7/8/8/7p/7P/7K w - - 149 120"} {
		g0, err := ref.GameFromFEN(f)
		if err != nil {
			continue
		}
		for _, m1 := range g0.Cur().Legal() {
			g1 := g0.Clone()
			g1.Push(m1)
			for _, m2 := range g1.Cur().Legal() {
				c.Evaluations.Add(1)
				if cls, msg := engineLine(f, []string{m1.String(), m2.String()}); msg != "" {
					c.Violation(ecc.sig("C01/"+cls, f+" "+m1.String()+" "+m2.String()), msg, "C01/engine-line", []string{f, m1.String(), m2.String()})
				}
			}
		}
	}
	WalkFlat(c, corpus.PromotionFamily, engineVisit, nil)
	WalkFlat(c, corpus.CornerFamily, engineVisit, nil)
	WalkFlat(c, func(e func(*ref.Pos)) { corpus.EnPassantFamily(false, e) }, engineVisit, nil)

	// implementation perft against the published numbers
	type job struct {
		fen  string
		d    int
		want int64
	}
	var jobs []job
	limit := int64(c.Pick(450_000, 5_000_000))
	for _, a := range corpus.Perft {
		for d, want := range a.Counts {
			if want <= limit {
				jobs = append(jobs, job{a.FEN, d + 1, want})
			}
		}
	}
	harness.Parallel(len(jobs), func(i int) {
		j := jobs[i]
		n := rootNode(j.fen)
		got := implPerft(n.Pos, n.Turn, j.d)
		c.Transitions.Add(got)
		c.Evaluations.Add(1)
		if got != j.want {
			c.Violation(fmt.Sprintf("C01/perft %s d=%d", j.fen, j.d), fmt.Sprintf("perft(%d)=%d, published %d", j.d, got, j.want), "C01/perft", map[string]any{"FEN": j.fen, "Depth": j.d, "Want": j.want})
		}
	})
	c.SetExtra("perft_anchors_checked", len(jobs))
	c.Sample(map[string]any{"perft": corpus.Initial, "depth": 4, "published": 197281})
	c.Finish()
}
