package seq

import (
	"encoding/json"
	"fmt"

	"github.com/herohde/morlock/pkg/board"
	"github.com/herohde/morlock/pkg/board/fen"
	"verif/bridge"
	"verif/corpus"
	"verif/harness"
	"verif/ref"
)

func init() {
	Checks["C02"] = checkC02
	Replayers["C02/odd"] = func(data json.RawMessage) (bool, string) {
		var f string
		_ = json.Unmarshal(data, &f)
		first := ""
		oddViews(f, func(where, msg string) {
			if msg != "" && first == "" {
				first = msg + " at " + f + " " + where
			}
		})
		return first != "", first
	}
	Replayers["C02/succ"] = func(data json.RawMessage) (bool, string) {
		var d struct{ FEN, Move string }
		_ = json.Unmarshal(data, &d)
		rp, _, _, err := ref.ParseFEN(d.FEN)
		if err != nil {
			return false, "bad FEN in replay"
		}
		n := refNode(rp)
		im, rm := commonMoves(n)
		for i, m := range im {
			if bridge.Text(m) == d.Move {
				before := *n.Pos
				sp, ok := n.Pos.Move(m)
				if !ok {
					return true, "move rejected"
				}
				msg := compareSuccessor(n, &before, m, rm[i], sp)
				return msg != "", msg
			}
		}
		return false, "move not legal in both models"
	}
}

// viewsAgree checks that every view of a position agrees with the square lookup and the
// reference attack relation; want is the reference position it should equal.
func viewsAgree(pos *board.Position, want *ref.Pos) string {
	var all board.Bitboard
	var byColor [2]board.Bitboard
	var byPiece [2][7]board.Bitboard
	for s := int8(0); s < 64; s++ {
		sq := bridge.Sq(s)
		c, p, ok := pos.Square(sq)
		v := want.Sq[s]
		switch {
		case v == 0 && ok:
			return fmt.Sprintf("square %v: lookup says %v%v, rules say empty", sq, c, p)
		case v != 0 && !ok:
			return fmt.Sprintf("square %v: lookup says empty, rules say piece %d", sq, v)
		case v != 0:
			wc, av := board.White, v
			if v < 0 {
				wc, av = board.Black, -v
			}
			wp := bridge.Piece(av)
			if c != wc || p != wp {
				return fmt.Sprintf("square %v: lookup says %v%v, rules say %v%v", sq, c, p, wc, wp)
			}
			all |= board.BitMask(sq)
			byColor[wc] |= board.BitMask(sq)
			byPiece[wc][wp] |= board.BitMask(sq)
		}
		if pos.IsEmpty(sq) != (v == 0) {
			return fmt.Sprintf("square %v: IsEmpty=%v", sq, pos.IsEmpty(sq))
		}
	}
	if pos.All() != all {
		return fmt.Sprintf("occupancy view %x differs from squares %x", uint64(pos.All()), uint64(all))
	}
	if pos.Rotated() != board.NewRotatedBitboard(all) {
		return "rotated occupancy differs from a rotation of the occupancy"
	}
	if pos.Rotated().Mask() != all {
		return "rotated mask differs from occupancy"
	}
	for c := board.ZeroColor; c < board.NumColors; c++ {
		if pos.Color(c) != byColor[c] {
			return fmt.Sprintf("colour set of %v differs from squares", c)
		}
		for p := board.ZeroPiece; p < board.NumPieces; p++ {
			if pos.Piece(c, p) != byPiece[c][p] {
				return fmt.Sprintf("piece set %v%v differs from squares", c, p)
			}
		}
		for s := int8(0); s < 64; s++ {
			// IsAttacked(c, sq): attacked by the opponent of c
			if got, exp := pos.IsAttacked(c, bridge.Sq(s)), want.Attacked(int(s), c == board.Black); got != exp {
				return fmt.Sprintf("IsAttacked(%v,%v)=%v, rules say %v", c, bridge.Sq(s), got, exp)
			}
			// the attack query per kind of piece is one more view: it must agree with the squares
			var kinds [7]bool
			for _, a := range want.Attackers(int(s), c == board.Black) {
				k := want.Sq[a]
				if k < 0 {
					k = -k
				}
				kinds[k] = true
			}
			for _, pc := range board.AllPieces {
				if got := pos.IsAttackedBy(c, bridge.Sq(s), []board.Piece{pc}); got != kinds[bridge.RefPiece(pc)] {
					return fmt.Sprintf("IsAttackedBy(%v,%v,[%v])=%v, the squares say %v", c, bridge.Sq(s), pc, got, kinds[bridge.RefPiece(pc)])
				}
			}
			if got, exp := pos.IsAttackedBy(c, bridge.Sq(s), board.KingQueen), kinds[ref.K] || kinds[ref.Q]; got != exp {
				return fmt.Sprintf("IsAttackedBy(%v,%v,KingQueen)=%v, the squares say %v", c, bridge.Sq(s), got, exp)
			}
		}
		if k := want.KingSq(c == board.White); k >= 0 {
			if pos.KingSquare(c) != bridge.Sq(int8(k)) {
				return fmt.Sprintf("KingSquare(%v)=%v", c, pos.KingSquare(c))
			}
			if got, exp := pos.IsChecked(c), want.InCheck(c == board.White); got != exp {
				return fmt.Sprintf("IsChecked(%v)=%v, rules say %v", c, got, exp)
			}
		}
	}
	return ""
}

// viewsSelfConsistent: the lookup, the sets, the occupancy and the rotated occupancy of one
// position against one another (no rules involved): want is the placement read from the sets.
func viewsSelfConsistent(pos *board.Position, want *ref.Pos) string {
	var all board.Bitboard
	for s := int8(0); s < 64; s++ {
		sq := bridge.Sq(s)
		c, p, ok := pos.Square(sq)
		v := want.Sq[s]
		switch {
		case v == 0 && ok:
			return fmt.Sprintf("square %v: the lookup says %v%v, the piece sets hold nothing there", sq, c, p)
		case v != 0 && !ok:
			return fmt.Sprintf("square %v: the lookup says empty, the piece sets hold piece %d there", sq, v)
		case v != 0:
			wc, av := board.White, v
			if v < 0 {
				wc, av = board.Black, -v
			}
			if c != wc || p != bridge.Piece(av) {
				return fmt.Sprintf("square %v: the lookup says %v%v, the piece sets say %v%v", sq, c, p, wc, bridge.Piece(av))
			}
			all |= board.BitMask(sq)
		}
		if pos.IsEmpty(sq) != (v == 0) {
			return fmt.Sprintf("square %v: IsEmpty=%v", sq, pos.IsEmpty(sq))
		}
	}
	if pos.All() != all || pos.Color(board.White)|pos.Color(board.Black) != all {
		return fmt.Sprintf("occupancy %x / colour sets differ from the piece sets %x", uint64(pos.All()), uint64(all))
	}
	if pos.Rotated() != board.NewRotatedBitboard(all) || pos.Rotated().Mask() != all {
		return "rotated occupancy differs from a rotation of the occupancy"
	}
	return ""
}

func compareSuccessor(n *Node, before *board.Position, m board.Move, rm ref.Move, sp *board.Position) string {
	want := n.Ref.Make(rm)
	if *n.Pos != *before {
		return "the position moved from was modified"
	}
	got := bridge.ToRef(sp, n.Turn.Opponent())
	if got.Sq != want.Sq {
		return fmt.Sprintf("placement differs: got %s want %s", got.FEN(0, 1), want.FEN(0, 1))
	}
	if got.Castle != want.Castle {
		return fmt.Sprintf("castling rights differ: got %s want %s", got.FEN(0, 1), want.FEN(0, 1))
	}
	if got.EP != want.EP {
		return fmt.Sprintf("en-passant target differs: got %s want %s", got.FEN(0, 1), want.FEN(0, 1))
	}
	if msg := viewsAgree(sp, want); msg != "" {
		return msg
	}
	if g, w := fen.Encode(sp, n.Turn.Opponent(), 0, 1), want.FEN(0, 1); g != w {
		return fmt.Sprintf("encoded successor %q, rules say %q", g, w)
	}
	return ""
}

var oddPlacements = []string{
	"4k3/8/8/8/8/8/7P/K3K3 w - - 0 1", "k3k3/7p/8/8/8/8/8/4K3 b - - 0 1", "K6K/8/8/3k4/8/8/8/K6K w - - 0 1",
	"8/8/8/8/8/8/P6p/R6r w - - 0 1", "QQQQQQQQ/QQQQQQQQ/8/8/8/8/qqqqqqqq/kqqqqqqK w - - 0 1", "k7/8/8/8/8/8/8/K3K2R w K - 0 1",
}

// oddViews reports (where, msg) for the placement f and every successor to depth 2 the
// implementation produces from it (msg == "": the views agree there).
func oddViews(f string, report func(where, msg string)) {
	pos, turn, _, _, err := fen.Decode(f)
	if err != nil || pos == nil {
		return
	}
	fromSets := func(p *board.Position) *ref.Pos {
		r := &ref.Pos{EP: -1, White: true}
		for c := board.ZeroColor; c < board.NumColors; c++ {
			for pc := board.ZeroPiece; pc < board.NumPieces; pc++ {
				for _, sq := range p.Piece(c, pc).ToSquares() {
					v := bridge.RefPiece(pc)
					if c == board.Black {
						v = -v
					}
					r.Sq[bridge.RefSq(sq)] = v
				}
			}
		}
		return r
	}
	check := func(p *board.Position, where string) {
		report(where, viewsSelfConsistent(p, fromSets(p)))
	}
	check(pos, "")
	for _, side := range []board.Color{turn, turn.Opponent()} {
		for _, m := range pos.PseudoLegalMoves(side) {
			if sp, ok := pos.Move(m); ok {
				check(sp, "after "+bridge.Text(m))
				for _, m2 := range sp.PseudoLegalMoves(side.Opponent()) {
					if sp2, ok := sp.Move(m2); ok {
						check(sp2, "after "+bridge.Text(m)+" "+bridge.Text(m2))
					}
				}
			}
		}
	}
}

func checkC02(c *harness.Check) {
	mustAnchors(c)
	c.Rule = "every (node, legal move) of the C01 spaces (BFS closures, chains arise because every node was produced by the implementation's own Move; plus systematic families, incl. positions with all eight squares of a long diagonal occupied): successor placement/rights/e.p. vs reference Make; square lookup vs per-piece/per-colour/occupancy/rotated views; IsAttacked and IsAttackedBy (every single kind of piece, KingQueen) for 2x64 squares and IsChecked vs reference ray walk; FEN of successor; parent value unchanged. distinct_nontrivial = distinct (move kind, rights-before, rights-after, e.p.-set) classes"
	edge := func(n *Node, m board.Move, rm ref.Move, succ *Node) {
		c.Evaluations.Add(1)
		before := *n.Pos
		sp, ok := n.Pos.Move(m)
		if !ok {
			return
		}
		c.Traces.Add(1)
		if msg := compareSuccessor(n, &before, m, rm, sp); msg != "" {
			c.Violation(fmt.Sprintf("C02/succ %s %s", n.Ref.FEN(0, 1), bridge.Text(m)), msg+" after "+bridge.Text(m)+" at "+n.Where(), "C02/succ", map[string]string{"FEN": n.Ref.FEN(0, 1), "Move": bridge.Text(m)})
		}
		c.Distinct(fmt.Sprint(rm.Kind, n.Ref.Castle, succ.Ref.Castle, succ.Ref.EP >= 0, rm.Piece, rm.Captured))
	}
	rootViews := func(n *Node) {
		if msg := viewsAgree(n.Pos, n.Ref); msg != "" {
			c.Violation("C02/views "+n.Ref.FEN(0, 1), msg+" at "+n.Where(), "C02/views", n.Ref.FEN(0, 1))
		}
	}
	Walk(c, seedNodes(corpus.Tagged("big")), c.Pick(1, 2), rootViews, edge)
	Walk(c, seedNodes(corpus.NotTagged("big")), c.Pick(2, 3), rootViews, edge)
	c.Sample(map[string]any{"node": corpus.Kiwipete, "move": "e1g1", "expected_successor": "r3k2r/p1ppqpb1/bn2pnp1/3PN3/1p2P3/2N2Q1p/PPPBBPPP/R4RK1 b kq - 0 1"})
	WalkFlat(c, corpus.CornerFamily, nil, edge)
	WalkFlat(c, corpus.CastlingUnderAttack, nil, edge)
	WalkFlat(c, corpus.PromotionFamily, nil, edge)
	WalkFlat(c, corpus.FullDiagonalFamily, rootViews, edge)
	WalkFlat(c, func(e func(*ref.Pos)) { corpus.EnPassantFamily(c.Thorough(), e) }, nil, edge)
	if c.Thorough() {
		WalkFlat(c, corpus.KXvK, nil, edge)
		WalkFlat(c, corpus.PinFamily, nil, edge)
	}
	var cc classCap
	// placements the decoder accepts although no game reaches them (two or three kings of one colour,
	// none at all, a board full of queens): the rules say nothing about their moves, but every view
	// of such a position - and of every successor the implementation itself produces from it - must
	// still agree with every other view
	for _, f := range oddPlacements {
		oddViews(f, func(where, msg string) {
			c.Evaluations.Add(1)
			if msg != "" {
				c.Violation(cc.sig("C02/odd-views", f+" "+where), msg+" at "+f+" "+where, "C02/odd", f)
			}
		})
	}
	c.Sample(map[string]any{"family": "corner pieces with full rights", "node": "r3k2r/8/8/8/8/8/8/R3K2R w KQkq - 0 1", "move": "a1a8"})
	c.Finish()
}
