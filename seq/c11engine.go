package seq

import (
	"context"
	"fmt"

	"github.com/herohde/morlock/pkg/engine"
	"github.com/herohde/morlock/pkg/eval"
	"github.com/herohde/morlock/pkg/search"
	"github.com/herohde/morlock/pkg/search/searchctl"
	"github.com/seekerror/stdlib/pkg/lang"
)

type engineUnderTest struct{ e *engine.Engine }

// newTableEngine: static material leaves (position-determined); hash in MB, 0 = no table.
func newTableEngine(ctx context.Context, hash uint) *engine.Engine {
	return engine.New(ctx, "verif", "verif", search.AlphaBeta{Eval: search.Leaf{Eval: eval.Material{}}}, engine.WithOptions(engine.Options{Hash: hash}))
}

func (u *engineUnderTest) analyse(ctx context.Context, depth int) (search.PV, error) {
	out, err := u.e.Analyze(ctx, searchctl.Options{DepthLimit: lang.Some(uint(depth))})
	if err != nil {
		return search.PV{}, err
	}
	last, ok := drain(out)
	if !ok {
		return search.PV{}, fmt.Errorf("analysis did not end")
	}
	if pv, err := u.e.Halt(ctx); err == nil && pv.Depth >= last.Depth {
		last = pv
	}
	return last, nil
}
