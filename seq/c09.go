package seq

import (
	"encoding/json"
	"fmt"
	"math"

	"github.com/herohde/morlock/pkg/eval"
	"verif/bridge"
	"verif/harness"
)

func init() {
	Checks["C09"] = checkC09
	Replayers["C09/pair"] = func(data json.RawMessage) (bool, string) {
		var d [2]eval.Score
		_ = json.Unmarshal(data, &d)
		msg := pairLaws(d[0], d[1])
		return msg != "", msg
	}
	Replayers["C09/triple"] = func(data json.RawMessage) (bool, string) {
		var d [3]eval.Score
		_ = json.Unmarshal(data, &d)
		bad := d[0].Less(d[1]) && d[1].Less(d[2]) && !d[0].Less(d[2])
		return bad, fmt.Sprintf("%v<%v and %v<%v but not %v<%v", d[0], d[1], d[1], d[2], d[0], d[2])
	}
}

func scoreAlphabet() []eval.Score {
	out := []eval.Score{eval.InfScore, eval.NegInfScore}
	for k := -128; k <= 127; k++ {
		if k != 0 {
			out = append(out, eval.MateInXScore(int8(k)))
		}
	}
	fs := []float32{0, float32(math.Copysign(0, -1)), math.SmallestNonzeroFloat32, -math.SmallestNonzeroFloat32, 1, -1, 103, -103, math.MaxFloat32, -math.MaxFloat32,
		float32(math.Inf(1)), float32(math.Inf(-1)), 0.001, -0.001, 0.5, -0.5, 3, -3, 9, -9, 100, -100, 1e10, -1e10, 1e-10, -1e-10}
	for _, f := range []float32{1, -1, 103, -103, 0.001, 3, -3, 1e10} {
		fs = append(fs, math.Nextafter32(f, float32(math.Inf(1))), math.Nextafter32(f, float32(math.Inf(-1))))
	}
	// magnitudes at which an implementation might be tempted to put the mates on the same number line
	// as the heuristic values (round numbers and integer widths), and the mate distances around them
	for _, k := range []float32{127, 128, 255, 256, 1000, 9999, 10000, 20000, 30000, 32000, 32767, 32768, 65535, 65536, 100000, 1e6} {
		for _, d := range []float32{0, 1, 100, 127} {
			fs = append(fs, k-d, -(k - d), k+d, -(k + d))
		}
	}
	seen := map[uint32]bool{}
	for _, f := range fs {
		if bits := math.Float32bits(f); !seen[bits] {
			seen[bits] = true
			out = append(out, eval.HeuristicScore(eval.Pawns(f)))
		}
	}
	return out
}

// overflow reports whether the law evaluated on (a, b) involves an int8 overflow of the mate
// distance: one more ply on mate 127 or -128, or the negation of -128.
func overflow(law string, a, b eval.Score) bool {
	is := func(s eval.Score, k int8) bool { return s.Type == eval.MateInX && s.Mate == k }
	switch law {
	case "inc-order", "inc-value":
		return is(a, 127) || is(b, 127) || is(a, -128) || is(b, -128)
	case "involution", "reverse":
		return is(a, -128) || is(b, -128)
	}
	return false
}

// pairLaws checks every law of C09 that concerns two scores.
func pairLaws(a, b eval.Score) string {
	_, msg := pairLawsTagged(a, b)
	return msg
}

// canonical reports whether s is exactly the value the constructors build for its rank.
func canonical(s eval.Score) bool {
	if s.Type == eval.Heuristic {
		return s == eval.HeuristicScore(s.Pawns)
	}
	r, ok := bridge.RefScore(s)
	return ok && bridge.ImplScore(r) == s
}

// scoreClosure closes the constructor-built alphabet under the operations of the package that
// produce scores (negation, one ply more, one ply less; Max and Min return an argument): every
// value a search can hold is reached this way. Values are kept apart structurally, so a
// representation the constructors never build (say "won" with a left-over mate distance) is a
// member of its own.
func scoreClosure(al []eval.Score) []eval.Score {
	seen := map[eval.Score]bool{}
	var out, todo []eval.Score
	add := func(s eval.Score) {
		if !seen[s] {
			seen[s] = true
			out = append(out, s)
			todo = append(todo, s)
		}
	}
	for _, s := range al {
		add(s)
	}
	for len(todo) > 0 && len(out) < 4*len(al) {
		s := todo[0]
		todo = todo[1:]
		add(s.Negate())
		add(eval.IncrementMateDistance(s))
		add(eval.DecrementMateDistance(s))
	}
	return out
}

func pairLawsTagged(a, b eval.Score) (string, string) {
	ra, oka := bridge.RefScore(a)
	rb, okb := bridge.RefScore(b)
	if !oka || !okb {
		return "malformed", fmt.Sprintf("an operation of the package produced a score that is none of lost / mate / heuristic / won: %#v %#v", a, b)
	}
	same := a == b
	if !canonical(a) || !canonical(b) {
		// a representation the constructors do not build: what it denotes decides equality
		same = ra.Eq(rb)
	}
	if a.Less(b) != ra.Less(rb) {
		return "less", fmt.Sprintf("Less(%v,%v)=%v, the stated order says %v", a, b, a.Less(b), ra.Less(rb))
	}
	n := 0
	if a.Less(b) {
		n++
	}
	if b.Less(a) {
		n++
	}
	if same {
		n++
	}
	if n != 1 {
		return "total", fmt.Sprintf("not a total order on %#v,%#v: a<b=%v b<a=%v same=%v", a, b, a.Less(b), b.Less(a), same)
	}
	if nn := a.Negate().Negate(); canonical(a) && nn != a {
		return "involution", fmt.Sprintf("negation is not an involution on %v: --a=%v", a, nn)
	} else if rn, ok := bridge.RefScore(nn); !ok || !rn.Eq(ra) {
		return "involution", fmt.Sprintf("negation is not an involution on %#v: --a=%#v", a, nn)
	}
	if a.Less(b) != b.Negate().Less(a.Negate()) {
		return "reverse", fmt.Sprintf("negation does not reverse the order: %v<%v is %v but %v<%v is %v", a, b, a.Less(b), b.Negate(), a.Negate(), b.Negate().Less(a.Negate()))
	}
	ia, ib := eval.IncrementMateDistance(a), eval.IncrementMateDistance(b)
	if a.Less(b) != ia.Less(ib) {
		return "inc-order", fmt.Sprintf("adding a ply changes the order: %v<%v is %v but %v<%v is %v", a, b, a.Less(b), ia, ib, ia.Less(ib))
	}
	if ri, ok := bridge.RefScore(ia); !ok || !ri.Eq(ra.Inc()) {
		return "inc-value", fmt.Sprintf("adding a ply to %v gives %v", a, ia)
	}
	mx, mn := eval.Max(a, b), eval.Min(a, b)
	wantMax, wantMin := a, b
	if ra.Less(rb) {
		wantMax, wantMin = b, a
	}
	if !canonical(a) || !canonical(b) {
		rmx, ok1 := bridge.RefScore(mx)
		rmn, ok2 := bridge.RefScore(mn)
		rwx, _ := bridge.RefScore(wantMax)
		rwn, _ := bridge.RefScore(wantMin)
		if !ok1 || !ok2 || !rmx.Eq(rwx) || !rmn.Eq(rwn) {
			return "maxmin", fmt.Sprintf("Max/Min(%#v,%#v)=%#v/%#v", a, b, mx, mn)
		}
		return "", ""
	}
	if a != b && (mx != wantMax || mn != wantMin) {
		return "maxmin", fmt.Sprintf("Max/Min(%v,%v)=%v/%v", a, b, mx, mn)
	}
	if a == b && (mx != a || mn != a) {
		return "maxmin", fmt.Sprintf("Max/Min(%v,%v)=%v/%v", a, b, mx, mn)
	}
	return "", ""
}

func checkC09(c *harness.Check) {
	// the constructors are faithful: a heuristic score holds exactly the value it was built from
	// (the order is stated over those values, not over what a constructor makes of them)
	for _, f := range []float32{0, 1, -1, 103, 1e10, -1e10, math.MaxFloat32, -math.MaxFloat32, float32(math.Inf(1)), float32(math.Inf(-1)), math.SmallestNonzeroFloat32, 20000, 32767.5} {
		if got := eval.HeuristicScore(eval.Pawns(f)); got.Type != eval.Heuristic || math.Float32bits(float32(got.Pawns)) != math.Float32bits(f) {
			c.Violation(fmt.Sprintf("C09/constructor %v", f), fmt.Sprintf("HeuristicScore(%v) holds %v", f, got), "C09/note", nil)
		}
	}
	for k := -128; k <= 127; k++ {
		if k == 0 {
			continue
		}
		if got := eval.MateInXScore(int8(k)); got.Type != eval.MateInX || got.Mate != int8(k) {
			c.Violation(fmt.Sprintf("C09/constructor mate %d", k), fmt.Sprintf("MateInXScore(%d) holds %v", k, got), "C09/note", nil)
		}
	}
	base := scoreAlphabet()
	al := scoreClosure(base)
	c.SetExtra("constructor_alphabet", len(base))
	c.SetExtra("closure_under_negate_inc_dec", len(al))
	c.Rule = fmt.Sprintf("alphabet of %d scores: won, lost, mate k for every k in [-128,127]\\{0}, %d float32 heuristics incl. +-0, denormals, 1-ulp neighbours, +-max, +-Inf, round numbers and integer widths (127 .. 10^6) with mate distances added and subtracted, the constructors hold exactly what they were given (a heuristic value, a mate distance); CLOSED (breadth-first, values kept apart structurally) under the score-producing operations Negate / IncrementMateDistance / DecrementMateDistance, so that representations the constructors never build are members too; ALL pairs: Less vs rank tuple, trichotomy with ==, negation involutive and order-reversing, one more ply order-preserving and equal to the model's, Max/Min; ALL triples: transitivity; thorough: unary/neighbour laws over all 2^32 float32 payloads. distinct_nontrivial = pairs of distinct scores", len(base), len(base)-257)
	c.States.Store(int64(len(al)))
	harness.Parallel(len(al), func(i int) {
		a := al[i]
		for _, b := range al {
			c.Evaluations.Add(1)
			c.Transitions.Add(1)
			if law, msg := pairLawsTagged(a, b); msg != "" {
				sig := fmt.Sprintf("C09/pair %s %v %v", law, a, b)
				if overflow(law, a, b) {
					sig = fmt.Sprintf("C09/int8-overflow %s %v %v", law, a, b)
				}
				c.Violation(sig, msg, "C09/pair", [2]eval.Score{a, b})
			}
		}
		for _, b := range al {
			if !a.Less(b) {
				continue
			}
			for _, d := range al {
				c.Evaluations.Add(1)
				if b.Less(d) && !a.Less(d) {
					c.Violation(fmt.Sprintf("C09/triple %v %v %v", a, b, d), fmt.Sprintf("%v<%v and %v<%v but not %v<%v", a, b, b, d, a, d), "C09/triple", [3]eval.Score{a, b, d})
				}
			}
		}
	})
	c.Traces.Store(int64(len(al) * len(al)))
	for i, a := range al {
		for j, b := range al {
			if a != b {
				c.Distinct(fmt.Sprint(i, ",", j))
			}
		}
	}
	c.Sample(map[string]any{"pair": []string{"M-2", "M-1"}, "expected": "M-1 < M-2 (being mated sooner is worse)"})
	c.Sample(map[string]any{"triple": []string{"-inf", "M-1", "-103.00"}})
	if c.Thorough() {
		// all float32 payloads: neighbour order, negation, position between the mate classes
		var bad [16]string
		harness.Parallel(16, func(w int) {
			lo, hi := uint64(w)<<28, uint64(w+1)<<28
			for u := lo; u < hi; u++ {
				f := math.Float32frombits(uint32(u))
				if f != f {
					continue
				}
				s := eval.HeuristicScore(eval.Pawns(f))
				g := math.Nextafter32(f, float32(math.Inf(1)))
				t := eval.HeuristicScore(eval.Pawns(g))
				ok := s.Less(t) == (f < g) && !t.Less(s) && s.Negate().Negate() == s && t.Negate().Less(s.Negate()) == (f < g) &&
					eval.NegInfScore.Less(s) && s.Less(eval.InfScore) && eval.MateInXScore(-100).Less(s) && s.Less(eval.MateInXScore(100)) && eval.IncrementMateDistance(s) == s
				if !ok && bad[w] == "" {
					bad[w] = fmt.Sprintf("%v (bits %08x)", f, uint32(u))
				}
			}
		})
		c.Evaluations.Add(1 << 32)
		c.States.Add(1<<32 - 1<<24)
		for _, b := range bad {
			if b != "" {
				c.Violation("C09/float "+b, "heuristic score laws fail at "+b, "C09/note", b)
			}
		}
		c.SetExtra("float32_payloads_enumerated", int64(1)<<32)
	}
	c.Finish()
}
