package seq

import (
	"context"
	"encoding/json"
	"fmt"
	"os"
	"os/exec"
	"strings"

	"github.com/herohde/morlock/pkg/board"
	"github.com/herohde/morlock/pkg/engine"
	"github.com/herohde/morlock/pkg/eval"
	"github.com/herohde/morlock/pkg/search"
	"github.com/herohde/morlock/pkg/search/searchctl"
	"github.com/seekerror/stdlib/pkg/lang"
	"verif/bridge"
	"verif/corpus"
	"verif/harness"
)

func init() {
	Checks["C18"] = checkC18
	Replayers["C18/case"] = func(data json.RawMessage) (bool, string) {
		var d c18case
		_ = json.Unmarshal(data, &d)
		msg := runC18(d)
		return msg != "", msg
	}
	Replayers["C18/engine"] = func(data json.RawMessage) (bool, string) {
		var w []string
		_ = json.Unmarshal(data, &w)
		msg := runC18Engine(w)
		return msg != "", msg
	}
}

type c18case struct {
	Kind   string // repeat | after | seeds | noise
	Cfg    string
	Root   searchRoot
	Depth  int
	Before []searchRoot // searches run first on the same Search value (Kind after)
}

func (cs c18case) String() string {
	return fmt.Sprintf("%s %s d=%d %v before=%d", cs.Kind, cs.Cfg, cs.Depth, cs.Root, len(cs.Before))
}

type searchResult struct {
	nodes uint64
	score eval.Score
	pv    string
	err   error
}

func (r searchResult) String() string {
	return fmt.Sprintf("nodes=%d score=%v pv=[%s] err=%v", r.nodes, r.score, r.pv, r.err)
}

func doSearch(ctx context.Context, s search.Search, r searchRoot, depth int, seed int64, noise eval.Random) searchResult {
	b, _ := newSearchBoards(r, seed)
	n, sc, pv, err := s.Search(ctx, &search.Context{TT: search.NoTranspositionTable{}, Noise: noise}, b, depth)
	return searchResult{n, sc, bridge.MovesText(pv), err}
}

func runC18(cs c18case) (msg string) {
	// the cases of this check run in parallel in one process, i.e. several engines search at the same
	// time: a crash caused by state shared between them is a finding, not a harness failure
	defer func() {
		if r := recover(); r != nil {
			msg = fmt.Sprintf("panic while other searches were running in the same process: %v", r)
		}
	}()
	ctx := context.Background()
	fresh := func() search.Search { s, _, _ := cfgByName(cs.Cfg).Make(); return s }
	switch cs.Kind {
	case "repeat":
		s := fresh()
		a := doSearch(ctx, s, cs.Root, cs.Depth, 0, eval.Random{})
		b := doSearch(ctx, s, cs.Root, cs.Depth, 0, eval.Random{})
		if a != b {
			return fmt.Sprintf("the same search run twice on the same Search value returned %v and then %v", a, b)
		}
		if c := doSearch(ctx, fresh(), cs.Root, cs.Depth, 0, eval.Random{}); c != a {
			return fmt.Sprintf("the search returned %v, a second engine (fresh Search value) %v", a, c)
		}
	case "after":
		s := fresh()
		for _, r := range cs.Before {
			doSearch(ctx, s, r, cs.Depth, 0, eval.Random{})
		}
		a := doSearch(ctx, s, cs.Root, cs.Depth, 0, eval.Random{})
		if b := doSearch(ctx, fresh(), cs.Root, cs.Depth, 0, eval.Random{}); a != b {
			return fmt.Sprintf("after %d other searches on the same Search value the search returned %v, on a fresh one %v", len(cs.Before), a, b)
		}
	case "seeds":
		a := doSearch(ctx, fresh(), cs.Root, cs.Depth, 0, eval.Random{})
		for _, seed := range []int64{1, 2, 77, 20260917, bridge.DegenerateSeed} {
			if b := doSearch(ctx, fresh(), cs.Root, cs.Depth, seed, eval.Random{}); a != b {
				if seed == bridge.DegenerateSeed {
					return fmt.Sprintf("with hash seed 0 the search returned %v, with a hash table that maps every position to 0 (no hash table in use: hash values must not matter) %v", a, b)
				}
				return fmt.Sprintf("with hash seed 0 the search returned %v, with hash seed %d %v", a, seed, b)
			}
		}
	case "noise":
		a := doSearch(ctx, fresh(), cs.Root, cs.Depth, 0, eval.NewRandom(50, 42))
		b := doSearch(ctx, fresh(), cs.Root, cs.Depth, 0, eval.NewRandom(50, 42))
		if a != b {
			return fmt.Sprintf("with noise from the same seed the search returned %v and %v", a, b)
		}
	}
	return ""
}

// runC18Engine applies an operation word to an engine and checks that analysing never alters the
// engine's own game: Position() and the Board() snapshot before Analyze equal those after
// Analyze (while searching) and after Halt.
func runC18Engine(word []string) string {
	ctx := context.Background()
	e := engine.New(ctx, "verif", "verif", search.AlphaBeta{Eval: search.Quiescence{Explore: capturesOnly, Eval: search.Leaf{Eval: eval.Material{}}}}, engine.WithOptions(engine.Options{Hash: 1}))
	analyzing := false
	for i, op := range word {
		before := bridge.Snapshot(e.Board(), true) + "|" + e.Position()
		changes := false
		switch {
		case strings.HasPrefix(op, "reset "):
			_ = e.Reset(ctx, strings.TrimPrefix(op, "reset "))
			changes, analyzing = true, false
		case strings.HasPrefix(op, "move"):
			ms := e.Board().Position().LegalMoves(e.Board().Turn())
			if len(ms) == 0 {
				continue
			}
			k := 0
			fmt.Sscan(strings.TrimPrefix(op, "move"), &k)
			if err := e.Move(ctx, bridge.Text(ms[k%len(ms)])); err != nil {
				return fmt.Sprintf("op %d (%s): legal move rejected: %v", i+1, op, err)
			}
			changes, analyzing = true, false
		case op == "shuffle":
			_ = e.Reset(ctx, "k7/p7/P7/8/8/7p/7P/7K w - - 0 1")
			for _, t := range []string{"h1g1", "a8b8", "g1h1", "b8a8", "h1g1", "a8b8", "g1h1", "b8a8"} {
				if err := e.Move(ctx, t); err != nil {
					return fmt.Sprintf("op %d (%s): %v", i+1, op, err)
				}
			}
			changes, analyzing = true, false
		case op == "takeback":
			changes = e.TakeBack(ctx) == nil
			analyzing = false
		case strings.HasPrefix(op, "analyze"):
			d := 2
			fmt.Sscan(strings.TrimPrefix(op, "analyze"), &d)
			out, err := e.Analyze(ctx, searchctl.Options{DepthLimit: lang.Some(uint(d))})
			if err != nil {
				if !analyzing {
					return fmt.Sprintf("op %d (%s): Analyze failed: %v", i+1, op, err)
				}
				continue
			}
			analyzing = true
			for range out { // let it run to its depth limit
			}
		case op == "halt":
			_, _ = e.Halt(ctx)
			analyzing = false
		}
		after := bridge.Snapshot(e.Board(), true) + "|" + e.Position()
		if !changes && after != before {
			return fmt.Sprintf("op %d (%s) of %q altered the engine's own game:\n      before %s\n      after  %s", i+1, op, word, before, after)
		}
	}
	return ""
}

func checkC18(c *harness.Check) {
	mustAnchors(c)
	c.Rule = "sequential half of C18 (the concurrent half runs under the interleaving explorer): for every (root of the search corpus, depth, configuration of the 7 search configurations): (repeat) the same search twice on one Search value and once on a second one; (after) the search after every other root of the corpus / every pair was searched first on the same Search value; (seeds) Zobrist seeds 0,1,2,77,20260917 and the zero-value table under which EVERY position hashes to 0 (without a hash table hash values must not matter at all), incl. roots whose history contains repetitions; (twins) every root that has a history right after / before its history-less twin (same position set up directly) on the same Search value; (noise) evaluation noise twice from the same seed - (score, PV, node count) must be identical. Engine operation words of length <= 4 over {reset F (incl. a root one move from a fifty-move draw), shuffle into a three-fold, move i, takeback, analyze d, halt}: Position() and the full Board() snapshot are unchanged by analyze/halt. Engine words of length <= 5 over {noise 5000, noise 0, reset A, reset B, move, analyze (no depth given: the Depth option applies), analyze 1, analyze 3, depth 1 (sets the option)} ending in an analysis, no table: every analysis identical on two engines with the same seed, and - for a game set up while the noise option is 0 - equal to that of a fresh engine that never had noise on (other hash seed) analysing that game to that depth (the depth given with the command, else the option as last set); the Depth option reads back as last set after every analysis. distinct_nontrivial = distinct cases with depth >= 1"
	var cases []c18case
	roots := searchRoots
	for _, cfg := range searchCfgs {
		for ri, r := range roots {
			max := c.Pick(2, 3)
			if strings.Contains(r.Tags, "net") {
				max = c.Pick(3, 4)
			}
			if cfg.Name == "turochamp" || strings.HasPrefix(cfg.Name, "bernstein") || cfg.Name == "sargon" {
				max--
			}
			for d := 1; d <= max; d++ {
				cases = append(cases, c18case{Kind: "repeat", Cfg: cfg.Name, Root: r, Depth: d})
				cases = append(cases, c18case{Kind: "seeds", Cfg: cfg.Name, Root: r, Depth: d})
				cases = append(cases, c18case{Kind: "noise", Cfg: cfg.Name, Root: r, Depth: d})
			}
			// second-use state: one and two other searches first
			d := 2
			for oi, o := range roots {
				if !c.Thorough() && (oi+ri)%5 != 0 {
					continue
				}
				cases = append(cases, c18case{Kind: "after", Cfg: cfg.Name, Root: r, Depth: d, Before: []searchRoot{o}})
				cases = append(cases, c18case{Kind: "after", Cfg: cfg.Name, Root: r, Depth: d, Before: []searchRoot{o, roots[(oi+7)%len(roots)]}})
			}
		}
	}
	// same position, different history: every root that has a history, searched right after (and
	// right before) its history-less twin on the same Search value
	for _, cfg := range searchCfgs {
		for _, r := range append(append([]searchRoot{}, roots...), historyRoots...) {
			if len(r.Moves) == 0 {
				continue
			}
			_, g := newSearchBoards(r, 0)
			twin := searchRoot{FEN: g.FEN(), Tags: r.Tags}
			for d := 1; d <= 2; d++ {
				cases = append(cases, c18case{Kind: "after", Cfg: cfg.Name, Root: r, Depth: d, Before: []searchRoot{twin}})
				cases = append(cases, c18case{Kind: "after", Cfg: cfg.Name, Root: twin, Depth: d, Before: []searchRoot{r}})
			}
		}
	}
	var cc classCap
	harness.Parallel(len(cases), func(i int) {
		if c.Expired() {
			return
		}
		cs := cases[i]
		c.Evaluations.Add(1)
		c.Traces.Add(1)
		c.States.Add(1)
		if msg := runC18(cs); msg != "" {
			c.Violation(cc.sig("C18/"+cs.Kind, cs.String()), msg+"\n    case: "+cs.String(), "C18/case", cs)
		}
		c.Distinct(cs.String())
	})
	c.Sample(cases[0])
	c.Sample(cases[len(cases)/2])

	// engine op words
	alphabet := []string{"reset " + searchRoots[11].FEN, "reset r3k2r/8/8/8/8/8/8/R3K2R w KQkq - 3 9", "move0", "move3", "takeback", "analyze1", "analyze2", "halt",
		"reset k7/p7/P7/8/8/7p/7P/7K w - - 99 60", // one move away from a claimable fifty-move draw: the engine's own game is then drawn
		"shuffle"} // h1g1 a8b8 g1h1 b8a8 twice on the fortress: a claimable three-fold in the engine's own game
	var words [][]string
	var gen func(w []string)
	gen = func(w []string) {
		if len(w) > 0 {
			words = append(words, append([]string(nil), w...))
		}
		if len(w) == c.Pick(4, 5) {
			return
		}
		for _, a := range alphabet {
			gen(append(w, a))
		}
	}
	gen(nil)
	harness.Parallel(len(words), func(i int) {
		if c.Expired() {
			return
		}
		c.Evaluations.Add(1)
		c.Transitions.Add(int64(len(words[i])))
		if msg := runC18Engine(words[i]); msg != "" {
			c.Violation(cc.sig("C18/engine", strings.Join(words[i], ";")), msg, "C18/engine", words[i])
		}
	})
	c.SetExtra("engine_operation_words", len(words))
	noiseWords(c)
	c.Sample(words[len(words)-1])
	concurrentHalf(c)
	c.Finish()
}

var _ = board.White

// concurrentHalf runs the interleaving explorer built with function-entry yields (two engines
// side by side) and merges what it covered into this check's evidence.
func concurrentHalf(c *harness.Check) {
	embedInterleavings(c, "VERIF_MCY", "mcy", "C18")
	c.Sample(map[string]any{"interleaving_scenario": "two engines searching K v K side by side, scheduling point at every function entry", "oracle": "each engine returns what it returns alone"})
}

// embedInterleavings runs the interleaving (E2) scenarios registered for the check in the explorer
// binary named by the environment variable and folds its statistics and confirmed violations
// into this check's evidence.
func embedInterleavings(c *harness.Check, binEnv, engine, id string) {
	bin := os.Getenv(binEnv)
	if bin == "" {
		fmt.Fprintf(os.Stderr, "HARNESS-ERROR: %s is not set: the interleaving half of %s needs the explorer build (use ./run %s)\n", binEnv, id, id)
		os.Exit(2)
	}
	cmd := exec.Command(bin, id, c.Tier)
	cmd.Env = append(os.Environ(), "VERIF_EMBED=1")
	cmd.Stderr = os.Stderr
	out, err := cmd.Output()
	var emb struct {
		Stats struct {
			Executions, Steps, Points, Met, Inconclusive, Pruned, Diverged int64
			Capped                                                         bool
			Outcomes                                                       map[string]int64
		} `json:"stats"`
		Scenarios int `json:"scenarios"`
		BoundDone int `json:"bound_done"`
		Confirmed []struct {
			Violation string `json:"violation"`
			Msg       string `json:"msg"`
		} `json:"confirmed"`
	}
	var raw struct {
		Confirmed []json.RawMessage `json:"confirmed"`
	}
	found := false
	for _, line := range strings.Split(string(out), "\n") {
		if strings.HasPrefix(line, "EMBED ") {
			js := []byte(strings.TrimPrefix(line, "EMBED "))
			if json.Unmarshal(js, &emb) == nil && json.Unmarshal(js, &raw) == nil {
				found = true
			}
		}
	}
	if err != nil || !found {
		fmt.Fprintf(os.Stderr, "HARNESS-ERROR: the interleaving half of %s failed: %v\n%s\n", id, err, out)
		os.Exit(2)
	}
	c.States.Add(emb.Stats.Points + emb.Stats.Executions)
	c.Transitions.Add(emb.Stats.Steps)
	c.Traces.Add(emb.Stats.Executions)
	c.Evaluations.Add(emb.Stats.Executions)
	c.SetExtra("interleaving_scenarios", emb.Scenarios)
	c.SetExtra("interleaving_executions", emb.Stats.Executions)
	c.SetExtra("interleaving_scheduler_steps", emb.Stats.Steps)
	c.SetExtra("interleaving_deviation_bound_completed", emb.BoundDone)
	c.SetExtra("interleaving_distinct_outcomes", len(emb.Stats.Outcomes))
	if emb.Stats.Diverged > 0 {
		c.Exhaustive = false
		c.SetExtra("interleaving_executions_diverged", emb.Stats.Diverged)
		c.Note("%d executions of the interleaving half did not reproduce the prefix they were replaying (state carried from one execution to the next, or nondeterminism the scheduler does not own); they were set aside, not judged", emb.Stats.Diverged)
	}
	if emb.Stats.Capped {
		c.Exhaustive = false
		c.Note("the interleaving half hit its deadline; bound completed for every scenario: %d", emb.BoundDone)
	}
	for i, f := range emb.Confirmed {
		c.ViolationEngine(engine, f.Violation, f.Msg, "mc/schedule", raw.Confirmed[i])
	}
}

// historyRoots reach a position by play that could also be set up directly: what the heuristics
// read from the history (moved pieces, castled flags, last moves) differs, the position does not.
var historyRoots = []searchRoot{
	{corpus.Initial, []string{"g1f3", "a7a6", "f3g1"}, "history"},
	{corpus.Initial, []string{"e2e4", "e7e5", "g1f3", "b8c6", "f1c4", "f8c5", "e1g1"}, "history castled"},
	{"r3k2r/8/8/8/8/8/8/R3K2R w KQkq - 0 1", []string{"e1g1", "e8c8"}, "history castled"},
	{"4k3/8/8/3q4/4P3/8/3R4/4K3 b - - 0 1", []string{"e8e7", "e1f1", "e7e8", "f1e1"}, "history tactical"},
}
