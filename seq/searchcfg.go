package seq

import (
	"context"
	"fmt"

	"github.com/herohde/morlock/cmd/bernstein/bernstein"
	"github.com/herohde/morlock/cmd/sargon/sargon"
	"github.com/herohde/morlock/cmd/turochamp/turochamp"
	"github.com/herohde/morlock/pkg/board"
	"github.com/herohde/morlock/pkg/eval"
	"github.com/herohde/morlock/pkg/search"
	"verif/bridge"
	"verif/ref"
	"verif/refsearch"
)

// searchCfg pairs an implementation search with the reference configuration that describes the
// same explored moves and the same leaf evaluation.
type searchCfg struct {
	Name string
	Make func() (search.Search, refsearch.Config, func(ctx context.Context, root *board.Board))
}

func capturesOnly(ctx context.Context, b *board.Board) (board.MovePriorityFn, board.MovePredicateFn) {
	return search.MVVLVA, func(m board.Move) bool { return m.IsCapture() }
}

func noReset(ctx context.Context, root *board.Board) {}

var searchCfgs = []searchCfg{
	{"full/material", func() (search.Search, refsearch.Config, func(context.Context, *board.Board)) {
		leaf := search.Leaf{Eval: eval.Material{}}
		return search.AlphaBeta{Eval: leaf}, refsearch.Config{Leaf: refsearch.Static, Eval: leaf}, noReset
	}},
	{"full/captures-quiescence", func() (search.Search, refsearch.Config, func(context.Context, *board.Board)) {
		leaf := search.Leaf{Eval: eval.Material{}}
		return search.AlphaBeta{Eval: search.Quiescence{Explore: capturesOnly, Eval: leaf}}, refsearch.Config{Leaf: refsearch.Quiesce, QExplore: capturesOnly, QPredPure: true, Eval: leaf, QMemo: &quietMemo}, noReset
	}},
	{"turochamp", func() (search.Search, refsearch.Config, func(context.Context, *board.Board)) {
		leaf := search.Leaf{Eval: turochamp.Eval{}}
		return search.AlphaBeta{Eval: search.Quiescence{Explore: turochamp.ConsiderableMovesOnly, Eval: leaf}},
			refsearch.Config{Leaf: refsearch.Quiesce, QExplore: turochamp.ConsiderableMovesOnly, Eval: leaf}, noReset
	}},
	{"sargon", func() (search.Search, refsearch.Config, func(context.Context, *board.Board)) {
		points := &sargon.Points{}
		leaf := search.Leaf{Eval: points}
		s := sargon.Hook{Eval: search.AlphaBeta{Explore: sargon.SkipUnderPromotions, Eval: sargon.OnePlyIfChecked{Leaf: leaf}}, Hook: points}
		return s, refsearch.Config{Explore: sargon.SkipUnderPromotions, Leaf: refsearch.OneIfCheck, Eval: leaf}, func(ctx context.Context, root *board.Board) { points.Reset(ctx, root) }
	}},
	{"bernstein/7", bernsteinCfg(7)},
	{"bernstein/3", bernsteinCfg(3)},
	{"bernstein/1", bernsteinCfg(1)},
}

func bernsteinCfg(limit int) func() (search.Search, refsearch.Config, func(context.Context, *board.Board)) {
	return func() (search.Search, refsearch.Config, func(context.Context, *board.Board)) {
		leaf := search.Leaf{Eval: bernstein.Eval{Factor: 20}}
		ex := bernstein.PlausibleMoveTable{Limit: limit}.Explore
		return search.AlphaBeta{Explore: ex, Eval: leaf}, refsearch.Config{Explore: ex, Leaf: refsearch.Static, Eval: leaf}, noReset
	}
}

func cfgByName(name string) searchCfg {
	for _, c := range searchCfgs {
		if c.Name == name {
			return c
		}
	}
	panic("unknown search configuration " + name)
}

// searchRoot is a root of the search corpus: a set-up position plus a history played on it.
type searchRoot struct {
	FEN   string
	Moves []string
	Tags  string // "net" = low branching, deep searches are affordable
}

func (r searchRoot) String() string {
	if len(r.Moves) == 0 {
		return r.FEN
	}
	return fmt.Sprintf("%s moves %v", r.FEN, r.Moves)
}

var searchRoots = []searchRoot{
	{"k7/8/2K5/8/8/8/8/7R b - - 0 1", nil, "net"},
	{"7k/8/5K2/6Q1/8/8/8/8 b - - 0 1", nil, "net"},
	{"k7/8/1K6/8/8/8/8/7R w - - 0 1", nil, "net"},
	{"7k/5Q2/6K1/8/8/8/8/8 b - - 0 1", nil, "net stalemate"},
	{"R6k/8/6K1/8/8/8/8/8 b - - 0 1", nil, "net checkmated"},
	{"8/8/8/8/8/2k5/1q6/K7 w - - 0 1", nil, "net"},
	{"8/8/8/4k3/8/8/3QK3/8 w - - 0 1", nil, "net"},
	{"8/8/8/4k3/8/8/3RK3/8 b - - 0 1", nil, "net"},
	{"6k1/5ppp/8/8/8/8/8/R3K3 w Q - 0 1", nil, "backrank"},
	{"6k1/5ppp/8/8/8/8/5PPP/3R2K1 w - - 0 1", nil, "backrank"},
	{"4q1k1/5ppp/8/8/8/8/8/Q3R1K1 w - - 0 1", nil, "backrank tactical"}, // the most valuable capture (searched first) is mate
	{"R3r1k1/5ppp/8/8/8/8/8/4K3 w - - 0 1", nil, "backrank tactical"},   // in check; the capture that answers it is mate
	{"4k3/2n1p3/3p4/2P1P3/3P4/8/8/4K3 w - - 0 1", nil, "pawns"},
	{"r3k3/1p6/2P5/8/8/5b2/4P3/R3K3 w Qq - 0 1", nil, "tactical"},
	{"8/8/3k4/2pPp3/2P1P3/3K4/8/8 w - - 0 1", nil, "pawns net"},
	{"4k3/8/8/3q4/4P3/8/3R4/4K3 b - - 0 1", nil, "tactical"},
	{"8/P6k/8/8/8/8/8/K7 w - - 0 1", nil, "promo net"},
	{"8/5P1k/8/8/8/8/8/K6n w - - 0 1", nil, "promo net"},
	{"8/5P1k/5K2/8/8/8/8/8 w - - 0 1", nil, "promo net"}, // only the ROOK promotion wins: the queen stalemates, bishop and knight leave insufficient material
	{"8/8/8/8/8/2k5/K1p5/8 b - - 0 1", nil, "promo net"}, // the same for Black
	{"4k3/8/8/8/8/8/1p6/K7 w - - 0 1", nil, "insufficient net"},
	{"4k3/8/8/8/8/8/1pn5/K1B5 w - - 0 1", nil, "insufficient"},
	{"k7/p7/P7/8/8/7p/7P/7K w - - 0 1", []string{"h1g1", "a8b8", "g1h1", "b8a8", "h1g1", "a8b8", "g1h1"}, "net repetition"},
	{"k7/p7/P7/8/8/7p/7P/7K w - - 0 1", []string{"h1g1", "a8b8", "g1h1", "b8a8", "h1g1", "a8b8"}, "net repetition"},
	// the same with UNEQUAL material, so that a draw that goes unnoticed changes the value
	{"7k/8/8/8/8/8/8/R6K w - - 0 1", []string{"a1a2", "h8g8", "a2a1", "g8h8", "a1a2", "h8g8", "a2a1"}, "net repetition"},
	{"7k/8/8/8/8/8/8/R6K w - - 0 1", []string{"a1a2", "h8g8", "a2a1", "g8h8", "a1a2", "h8g8"}, "net repetition"},
	{"7k/8/8/8/8/8/8/R6K w - - 0 1", []string{"a1a2", "h8g8", "a2a1", "g8h8", "a1a2"}, "net repetition"},
	{"7k/8/8/8/8/8/8/R6K b - - 98 60", nil, "net fifty"},
	{"7k/8/8/8/8/8/8/R6K w - - 97 60", nil, "net fifty"},
	{"k7/p7/P7/8/8/7p/7P/7K w - - 97 60", nil, "net fifty"},
	{"k7/p7/P7/8/8/7p/7P/7K b - - 99 60", nil, "net fifty"},
	// the fifty-move draw has to be claimed, so a game may be handed over with a clock far beyond 100
	// (around every width a clock might be squeezed into): every quiet line is worth 0 there
	{"7k/8/8/8/8/8/8/R6K w - - 127 90", nil, "net fifty"},
	{"7k/8/8/8/8/8/8/R6K b - - 128 90", nil, "net fifty"},
	{"7k/8/8/8/8/8/8/R6K w - - 255 200", nil, "net fifty"},
	{"7k/8/8/8/8/8/8/R6K w - - 65536 40000", nil, "net fifty"},
	{"r3k2r/8/8/8/8/8/8/R3K2R w KQkq - 0 1", nil, "castle"},
	{"4k3/8/8/8/2pP4/8/8/4K2B b - d3 0 1", nil, "ep net"},
	{"r1b1k3/ppp5/8/4N3/8/8/PPP5/2K5 w - - 0 1", []string{"e5f7"}, "tactical"},
	{"2k5/8/8/8/8/8/4r3/R3K3 w Q - 3 20", []string{"e1e2"}, "tactical net"},
}

// richRoots: capture-rich middlegames. Exhaustive minimax is affordable there only at small
// depths (static leaves) and, for the quiescence configurations, within a node budget.
var richRoots = []searchRoot{
	{"r3k2r/p1ppqpb1/bn2pnp1/3PN3/1p2P3/2N2Q1p/PPPBBPPP/R3K2R w KQkq - 0 1", nil, "rich"},
	{"1nk3rR/2p3b1/b3ppP1/5q2/p1B1P1n1/2Bp4/P7/RN2KR2 w - - 4 36", nil, "rich"},
	{"r5nr/R2nk1pp/5p2/1ppppb1q/1P3P2/K2PP1PB/2PbQ2P/1N4NR b - - 3 16", nil, "rich"},
	{"r1bq1rk1/pp2bppp/2n1pn2/2pp4/3P1B2/2PBPN2/PP1N1PPP/R2QK2R w KQ - 0 8", nil, "rich"},
	{"rnbq1k1r/pp1Pbppp/2p5/8/2B5/8/PPP1NnPP/RNBQK2R w KQ - 1 8", nil, "rich"},
}

// newSearchBoards sets up the implementation board and the reference game for a root.
func newSearchBoards(r searchRoot, seed int64) (*board.Board, *ref.Game) {
	g, err := ref.GameFromFEN(r.FEN)
	if err != nil {
		panic(err)
	}
	b := bridge.NewBoard(r.FEN, seed)
	for _, t := range r.Moves {
		rm, ok := g.Cur().FindMove(t)
		im, ok2 := bridge.FindImpl(b.Position(), b.Turn(), t)
		if !ok || !ok2 || !b.PushMove(im) {
			panic(fmt.Sprintf("bad search root %v at %s", r, t))
		}
		g.Push(rm)
	}
	return b, g
}
