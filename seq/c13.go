package seq

import (
	"context"
	"encoding/json"
	"fmt"
	"math"
	"sort"
	"strings"

	"github.com/herohde/morlock/cmd/turochamp/turochamp"
	"github.com/herohde/morlock/pkg/board"
	"github.com/herohde/morlock/pkg/eval"
	"github.com/herohde/morlock/pkg/search"
	"verif/bridge"
	"verif/harness"
	"verif/ref"
	"verif/refsearch"
)

func init() {
	Checks["C13"] = checkC13
	Replayers["C13/window"] = func(data json.RawMessage) (bool, string) {
		var d c13replay
		_ = json.Unmarshal(data, &d)
		ctx := context.Background()
		cs := c13case{Root: d.Root, Cfg: d.Cfg, Depth: d.Depth, Quiet: d.Quiet}
		v, _, hasMoves, static, err := c13truth(ctx, cs, 50_000_000)
		if err != nil {
			return false, "reference search exceeded its budget"
		}
		b, _ := newSearchBoards(cs.Root, 0)
		_, msg := c13window(ctx, cs, b, v, hasMoves, static, d.A, d.B)
		return msg != "", msg
	}
}

type c13case struct {
	Root  searchRoot
	Cfg   string
	Depth int
	Quiet bool // call the quiescence search directly (depth ignored)
}

type c13replay struct {
	Root  searchRoot
	Cfg   string
	Depth int
	Quiet bool
	A, B  eval.Score
}

func (cs c13case) String() string {
	if cs.Quiet {
		return fmt.Sprintf("quiescence %s %v", cs.Cfg, cs.Root)
	}
	return fmt.Sprintf("%s d=%d %v", cs.Cfg, cs.Depth, cs.Root)
}

type recEval struct {
	inner search.Evaluator
	vals  map[float32]bool
}

func (r recEval) Evaluate(ctx context.Context, sctx *search.Context, b *board.Board) eval.Pawns {
	v := r.inner.Evaluate(ctx, sctx, b)
	r.vals[float32(v)] = true
	return v
}

func quietFor(cfg string) search.QuietSearch {
	switch cfg {
	case "full/captures-quiescence":
		return search.Quiescence{Explore: capturesOnly, Eval: search.Leaf{Eval: eval.Material{}}}
	case "turochamp":
		return search.Quiescence{Explore: turochamp.ConsiderableMovesOnly, Eval: search.Leaf{Eval: turochamp.Eval{}}}
	}
	panic("no quiescence for " + cfg)
}

// c13truth computes the true value, the leaf values occurring in the tree, whether the root has
// a legal move, and the static evaluation of the root.
func c13truth(ctx context.Context, cs c13case, budget int64) (v ref.Score, leaves []float32, hasMoves bool, static ref.Score, err error) {
	_, rcfg, reset := cfgByName(cs.Cfg).Make()
	b, g := newSearchBoards(cs.Root, 0)
	reset(ctx, b)
	rec := recEval{inner: rcfg.Eval, vals: map[float32]bool{}}
	static = ref.Heur(float32(rcfg.Eval.Evaluate(ctx, search.EmptyContext, b)))
	rcfg.Eval = rec
	m := refsearch.New(rcfg, b, g, budget)
	hasMoves = len(g.Cur().Legal()) > 0
	if cs.Quiet {
		v, err = m.Quiet(ctx)
	} else {
		v, err = m.Value(ctx, cs.Depth)
	}
	for f := range rec.vals {
		leaves = append(leaves, f)
	}
	sort.Slice(leaves, func(i, j int) bool { return leaves[i] < leaves[j] })
	return
}

func windowAlphabet(leaves []float32, v ref.Score) []eval.Score {
	out := []eval.Score{eval.NegInfScore}
	for k := 1; k <= 7; k++ {
		out = append(out, eval.MateInXScore(int8(-k)))
	}
	if len(leaves) > 12 { // keep the extremes, the values around the true value and a spread
		var keep []float32
		step := len(leaves) / 8
		for i := 0; i < len(leaves); i += step {
			keep = append(keep, leaves[i])
		}
		keep = append(keep, leaves[len(leaves)-1])
		if v.Class == 2 {
			keep = append(keep, v.H)
		}
		sort.Slice(keep, func(i, j int) bool { return keep[i] < keep[j] })
		leaves = keep
	}
	last := float32(math.Inf(-1))
	for _, f := range leaves {
		for _, x := range []float32{math.Nextafter32(f, float32(math.Inf(-1))), f, math.Nextafter32(f, float32(math.Inf(1)))} {
			if x > last {
				out = append(out, eval.HeuristicScore(eval.Pawns(x)))
				last = x
			}
		}
	}
	for k := 7; k >= 1; k-- {
		out = append(out, eval.MateInXScore(int8(k)))
	}
	return append(out, eval.InfScore)
}

func le(a, b ref.Score) bool { return !b.Less(a) }

// c13window runs one windowed search and checks the clipping contract.
func c13window(ctx context.Context, cs c13case, b *board.Board, v ref.Score, hasMoves bool, static ref.Score, a, bb eval.Score) (string, string) {
	sctx := &search.Context{Alpha: a, Beta: bb, TT: search.NoTranspositionTable{}}
	var r eval.Score
	if cs.Quiet {
		_, r = quietFor(cs.Cfg).QuietSearch(ctx, sctx, b)
	} else {
		s, _, _ := cfgByName(cs.Cfg).Make()
		var err error
		_, r, _, err = s.Search(ctx, sctx, b, cs.Depth)
		if err != nil {
			return "error", "search error: " + err.Error()
		}
	}
	rr, ok := bridge.RefScore(r)
	if !ok {
		return "non-score", fmt.Sprintf("window (%v,%v): returned %v", a, bb, r)
	}
	ra, _ := bridge.RefScore(a)
	rb, _ := bridge.RefScore(bb)
	if !hasMoves {
		if !rr.Eq(v) {
			return "terminal", fmt.Sprintf("window (%v,%v): a position without legal moves was rated %v instead of %v", a, bb, r, bridge.ImplScore(v))
		}
		return "", ""
	}
	switch {
	case ra.Less(v) && v.Less(rb):
		if !rr.Eq(v) {
			return "inside", fmt.Sprintf("window (%v,%v) contains the true value %v but the search returned %v", a, bb, bridge.ImplScore(v), r)
		}
	case le(v, ra):
		if !(le(v, rr) && le(rr, ra)) {
			return "below", fmt.Sprintf("true value %v <= alpha of window (%v,%v) but the search returned %v (must lie between them)", bridge.ImplScore(v), a, bb, r)
		}
	default:
		if !(le(rb, rr) && le(rr, v)) {
			return "above", fmt.Sprintf("true value %v >= beta of window (%v,%v) but the search returned %v (must lie between them)", bridge.ImplScore(v), a, bb, r)
		}
	}
	if cs.Quiet && hasMoves && b.Result().Outcome != board.Draw && rr.Less(static) {
		return "stand-pat", fmt.Sprintf("window (%v,%v): quiescence rated the position %v, below its static evaluation %v", a, bb, r, bridge.ImplScore(static))
	}
	return "", ""
}

func checkC13(c *harness.Check) {
	mustAnchors(c)
	c.Rule = "search corpus (+ all positions one ply below each root for the direct quiescence calls; + capture ladders: one forced line of captures of every length up to ten plies) x depth 0..D x configuration x ALL windows a<b over the alphabet {lost, mated 1..7, every distinct leaf value of the tree and its two 1-ulp neighbours (thinned to <= 10 values when there are more), mate 7..1, won}: AlphaBeta.Search and Quiescence.QuietSearch (captures-only and TUROCHAMP) with that window vs the reference value v: r=v inside, v<=r<=a below, b<=r<=v above; quiescence never below the static evaluation when a legal move exists; move-less positions rated exactly for every window. distinct_nontrivial = distinct (case, side of the window the true value falls on) with a mate-valued bound or value"
	var cases []c13case
	for _, r := range searchRoots {
		net := strings.Contains(r.Tags, "net")
		for _, cfg := range []string{"full/material", "full/captures-quiescence", "sargon", "bernstein/3", "turochamp"} {
			max := c.Pick(2, 3)
			if net {
				max = c.Pick(4, 5)
			}
			if cfg != "full/material" && cfg != "full/captures-quiescence" {
				max--
			}
			for d := 0; d <= max; d++ {
				cases = append(cases, c13case{Root: r, Cfg: cfg, Depth: d})
			}
		}
		// direct quiescence calls at the root and one ply below
		_, g := newSearchBoards(r, 0)
		roots := []searchRoot{r}
		for _, m := range g.Cur().Legal() {
			roots = append(roots, searchRoot{FEN: r.FEN, Moves: append(append([]string(nil), r.Moves...), m.String()), Tags: r.Tags})
		}
		for _, qr := range roots {
			cases = append(cases, c13case{Root: qr, Cfg: "full/captures-quiescence", Quiet: true}, c13case{Root: qr, Cfg: "turochamp", Quiet: true})
		}
	}
	// capture ladders: a pawn of each side eats its way up a diagonal of enemy knights, nothing else can
	// be captured - one forced line of captures of every length up to ten plies (a quiescence search that
	// stops looking after some number of plies returns a bound, not the value); direct quiescence calls
	// and depth 0/1 of the search over quiescence
	for n := 1; n <= 5; n++ {
		for _, white := range []bool{true, false} {
			p := &ref.Pos{EP: -1, White: white}
			p.Sq[56], p.Sq[7] = -ref.K, ref.K // ka8, Kh1
			p.Sq[8], p.Sq[55] = ref.P, -ref.P // Pa2, ph7
			for i := 0; i < n; i++ {
				p.Sq[17+9*i] = -ref.N // b3, c4, d5, e6, f7: food for the white pawn
				if i < 4 {
					p.Sq[46-9*i] = ref.N // g6, f5, e4, d3: food for the black pawn
				}
			}
			r := searchRoot{FEN: p.FEN(0, 1), Tags: "ladder"}
			cases = append(cases, c13case{Root: r, Cfg: "full/captures-quiescence", Quiet: true},
				c13case{Root: r, Cfg: "full/captures-quiescence", Depth: 0}, c13case{Root: r, Cfg: "full/captures-quiescence", Depth: 1})
		}
	}
	budget := int64(c.Pick(2_000_000, 20_000_000))
	var cc classCap
	ctx := context.Background()
	harness.Parallel(len(cases), func(i int) {
		if c.Expired() {
			return
		}
		cs := cases[len(cases)-1-i]
		v, leaves, hasMoves, static, err := c13truth(ctx, cs, budget)
		if err != nil {
			c.AddExtra("cases_skipped_reference_budget", 1)
			return
		}
		c.States.Add(1)
		al := windowAlphabet(leaves, v)
		b, _ := newSearchBoards(cs.Root, 0)
		before := bridge.Snapshot(b, true)
		for i, a := range al {
			for _, bb := range al[i+1:] {
				c.Evaluations.Add(1)
				c.Transitions.Add(1)
				cls, msg := c13window(ctx, cs, b, v, hasMoves, static, a, bb)
				if msg != "" {
					c.Violation(cc.sig("C13/"+cls, fmt.Sprintf("%v window (%v,%v)", cs, a, bb)), msg+"\n    case: "+cs.String(), "C13/window", c13replay{cs.Root, cs.Cfg, cs.Depth, cs.Quiet, a, bb})
					b, _ = newSearchBoards(cs.Root, 0)
				}
				if a.IsMateInX() || bb.IsMateInX() || v.Class != 2 {
					ra, _ := bridge.RefScore(a)
					rb, _ := bridge.RefScore(bb)
					c.Distinct(fmt.Sprint(cs, ra.Less(v), v.Less(rb)))
				}
			}
		}
		if after := bridge.Snapshot(b, true); !sameState(before, after, hasMoves) {
			c.Violation(cc.sig("C13/board", cs.String()), "board not restored after windowed searches", "C13/note", cs.String())
		}
		c.Traces.Add(1)
	})
	c.Sample(map[string]any{"case": "full/material d=5 k7/8/2K5/8/8/8/8/7R b - - 0 1", "window": []string{"M-5", "M-3"}, "true_value": "M-4", "expect": "returned exactly M-4"})
	c.Sample(map[string]any{"case": "quiescence turochamp 4k3/8/8/3q4/4P3/8/3R4/4K3 b", "window": []string{"-1.00", "M7"}})
	c.Finish()
}
