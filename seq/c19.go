package seq

import (
	"context"
	"encoding/json"
	"fmt"
	"math/big"
	"strings"

	"github.com/herohde/morlock/pkg/board"
	"github.com/herohde/morlock/pkg/board/fen"
	"verif/bridge"
	"verif/corpus"
	"verif/harness"
	"verif/ref"
)

func init() {
	Checks["C19"] = checkC19
	Replayers["C19/fen"] = func(data json.RawMessage) (bool, string) {
		var s string
		_ = json.Unmarshal(data, &s)
		msg := decodeTotal(s)
		return msg != "", msg
	}
	Replayers["C19/parse"] = func(data json.RawMessage) (bool, string) {
		var s string
		_ = json.Unmarshal(data, &s)
		msg := parseTotal(s)
		return msg != "", msg
	}
	Replayers["C19/move"] = func(data json.RawMessage) (bool, string) {
		var d struct{ FEN, Move, Parent, Via string }
		_ = json.Unmarshal(data, &d)
		msg := engineMove(context.Background(), d.FEN, d.Move, nil, d.Parent, d.Via)
		return msg != "", msg
	}
}

// decodeTotal is the oracle for one FEN string: no panic; error or a non-nil, self-consistent
// position whose re-encoding decodes to the same position.
func isDigits(s string) bool {
	for _, r := range s {
		if r < '0' || r > '9' {
			return false
		}
	}
	return s != ""
}

func decodeTotal(s string) (msg string) {
	defer func() {
		if r := recover(); r != nil {
			msg = fmt.Sprintf("panic: %v", r)
		}
	}()
	pos, turn, np, fm, err := fen.Decode(s)
	if err != nil {
		return ""
	}
	if pos == nil {
		return "accepted (nil error) but returned a nil position"
	}
	if turn != board.White && turn != board.Black {
		return fmt.Sprintf("accepted with side to move %d", turn)
	}
	if np < 0 || fm < 0 {
		return "accepted with a negative clock"
	}
	// a counter written as a plain decimal number is that number (never wrapped or truncated)
	if f := strings.Fields(s); len(f) == 6 {
		for i, got := range []int{np, fm} {
			if v, ok := new(big.Int).SetString(f[4+i], 10); ok && isDigits(f[4+i]) && (!v.IsInt64() || v.Int64() != int64(got)) {
				return fmt.Sprintf("accepted, counter %q read as %d", f[4+i], got)
			}
		}
	}
	// self-consistency of the views
	var all board.Bitboard
	var byColor [2]board.Bitboard
	for sq := board.ZeroSquare; sq < board.NumSquares; sq++ {
		c, p, ok := pos.Square(sq)
		if ok {
			if !p.IsValid() || c > board.Black {
				return fmt.Sprintf("square %v holds invalid piece %d/%d", sq, c, p)
			}
			all |= board.BitMask(sq)
			byColor[c] |= board.BitMask(sq)
			if !pos.Piece(c, p).IsSet(sq) {
				return fmt.Sprintf("square %v: lookup and piece set disagree", sq)
			}
		}
		n := 0
		for c := board.ZeroColor; c < board.NumColors; c++ {
			for p := board.ZeroPiece; p < board.NumPieces; p++ {
				if pos.Piece(c, p).IsSet(sq) {
					n++
				}
			}
		}
		if (ok && n != 1) || (!ok && n != 0) {
			return fmt.Sprintf("square %v is in %d piece sets", sq, n)
		}
	}
	if pos.All() != all || pos.Color(board.White) != byColor[0] || pos.Color(board.Black) != byColor[1] || pos.Rotated() != board.NewRotatedBitboard(all) {
		return "occupancy / colour / rotated views disagree with the squares"
	}
	if ep, ok := pos.EnPassant(); ok && !ep.IsValid() {
		return "invalid e.p. square"
	}
	enc := fen.Encode(pos, turn, np, fm)
	p2, t2, np2, fm2, err := fen.Decode(enc)
	if err != nil || p2 == nil {
		return fmt.Sprintf("accepted, but its re-encoding %q is rejected (%v)", enc, err)
	}
	if *p2 != *pos || t2 != turn || np2 != np || fm2 != fm {
		return fmt.Sprintf("accepted, but its re-encoding %q decodes to a different position", enc)
	}
	return ""
}

func parseTotal(s string) (msg string) {
	defer func() {
		if r := recover(); r != nil {
			msg = fmt.Sprintf("panic: %v", r)
		}
	}()
	if m, err := board.ParseMove(s); err == nil {
		if !m.From.IsValid() || !m.To.IsValid() {
			return "ParseMove accepted with an invalid square"
		}
		if m.Promotion != board.NoPiece && (m.Promotion == board.Pawn || m.Promotion == board.King || !m.Promotion.IsValid()) {
			return "ParseMove accepted an impossible promotion piece"
		}
		if want := strings.ToLower(s); bridge.Text(m) != want {
			return fmt.Sprintf("ParseMove(%q) denotes %s", s, bridge.Text(m))
		}
	}
	if sq, err := board.ParseSquareStr(s); err == nil {
		if !sq.IsValid() {
			return "ParseSquareStr accepted with an invalid square"
		}
		if sq.String() != strings.ToLower(s) {
			return fmt.Sprintf("ParseSquareStr(%q) denotes %v", s, sq)
		}
	}
	return ""
}

// engineMove checks one move string on an engine set up with the FEN: accepted iff legal, state
// unchanged on rejection, standard successor on acceptance.
func engineMove(ctx context.Context, f, s string, legal map[string]ref.Move, history ...string) (msg string) {
	defer func() {
		if r := recover(); r != nil {
			msg = fmt.Sprintf("panic: %v", r)
		}
	}()
	e := newPlainEngine(ctx)
	start := f
	if len(history) == 2 && history[0] != "" {
		start = history[0]
	}
	if err := e.Reset(ctx, start); err != nil {
		return "Reset failed: " + err.Error()
	}
	g, _ := ref.GameFromFEN(start)
	if start != f {
		m0, ok := g.Cur().FindMove(history[1])
		if !ok || e.Move(ctx, history[1]) != nil {
			return "the move leading to the position is rejected"
		}
		g.Push(m0)
	}
	if legal == nil {
		legal = map[string]ref.Move{}
		for _, m := range g.Cur().Legal() {
			legal[m.String()] = m
		}
	}
	before := bridge.Snapshot(e.Board(), true)
	err := e.Move(ctx, s)
	rm, isLegal := legal[strings.ToLower(s)]
	if len(s) > 5 {
		isLegal = false
	}
	switch {
	case err == nil && !isLegal:
		return fmt.Sprintf("move string %q accepted although it is not a legal move", s)
	case err != nil && isLegal:
		return fmt.Sprintf("legal move %q rejected: %v", s, err)
	case err != nil:
		if after := bridge.Snapshot(e.Board(), true); after != before || e.Position() != g.FEN() {
			return fmt.Sprintf("rejected input %q changed the game state", s)
		}
	default:
		g.Push(rm)
		if e.Position() != g.FEN() {
			return fmt.Sprintf("after %q the engine reports %q, rules say %q", s, e.Position(), g.FEN())
		}
	}
	return ""
}

func checkC19(c *harness.Check) {
	mustAnchors(c)
	// beyond plain ASCII: NUL, a 2-byte rune, a non-ASCII digit, and runes that alias an ASCII symbol
	// under a narrowing conversion (same low byte: U+0131='1', U+0138='8', U+0161='a', U+0168='h',
	// U+0171='q'; same low 16 bits: U+10031='1', U+10061='a')
	sym := []string{"a", "h", "e", "1", "8", "9", "0", "q", "k", "p", "x", " ", "é", "٣", "\x00", "A", "Q", "-", "ı", "ĸ", "š", "Ũ", "ű", "\U00010031", "\U00010061"}
	maxLen := 5
	c.Rule = fmt.Sprintf("(a) every string of <= %d symbols over %q into ParseMove and ParseSquareStr, and every string of <= 5 symbols over 16 symbols incl. the characters whose other-case form has another UTF-8 length (Kelvin sign, dotted capital I, long s, Ohm, Angstrom, capital sharp s, A/T with stroke); (b) every FEN whose board field is a word of <= %d tokens over {K,k,p,1,3,8,9,0,/,arabic-3,x, 8/8/8/8, 8/8/8/8/8/8/8/7, 9x28 (run-length macros: the square cursor is a small unsigned integer)} with canonical other fields, and valid boards crossed with field alphabets for side/castling/e.p./clocks; (c) every single (thorough: and double) edit - replace, insert, delete over a 30-symbol alphabet - of %d valid FENs; (d) for every BFS node (depth<=1) of the seed corpus all 64x64x(none,q,r,b,n,k,p) move strings + case/length variants through Engine.Move: accepted iff reference-legal, successor FEN standard, state snapshot unchanged on rejection (positions one move from a seed are set up by PLAYING that move, so the engine has a history to lose). (e) on engines that have a game: Reset with every single edit of two FENs that does not decode, is rejected and leaves the game as it was (and so does a refused TakeBack at the root). Oracle for decoding: no panic; error or non-nil self-consistent position whose re-encoding decodes to the same position. Late in a game: after 2..5 rounds of a knight shuffle from the start position (third, fourth and FIFTH occurrence) every legal move is accepted by Engine.Move and leads where it should. distinct_nontrivial = accepted inputs", maxLen, sym, c.Pick(5, 6), 10)

	// (a) short strings into the two parsers
	var cc classCap
	// (a') ... and over the characters whose upper/lower-case form has ANOTHER LENGTH in UTF-8 (Kelvin
	// sign -> k, dotted capital I, long s, Ohm, Angstrom, capital sharp s shrink; A/T with stroke grow):
	// a parser that measures one form and indexes the other walks off the end
	fold := []string{"a", "e", "h", "2", "4", "8", "q", "k", "\u212a", "\u0130", "\u017f", "\u2126", "\u212b", "\u1e9e", "\u023a", "\u023e"}
	nf := len(fold)
	harness.Parallel(nf*nf, func(i int) {
		var gen func(s string, k int)
		gen = func(s string, k int) {
			c.Evaluations.Add(1)
			if msg := parseTotal(s); msg != "" {
				c.Violation(cc.sig("C19/parse", fmt.Sprintf("%q", s)), msg+fmt.Sprintf(" on %q", s), "C19/parse", s)
			}
			if k == 0 {
				return
			}
			for _, a := range fold {
				gen(s+a, k-1)
			}
		}
		gen(fold[i/nf]+fold[i%nf], 3)
	})
	n1 := len(sym)
	harness.Parallel(n1*n1, func(i int) {
		prefix := sym[i/n1] + sym[i%n1]
		var gen func(s string, k int)
		gen = func(s string, k int) {
			c.Evaluations.Add(1)
			c.States.Add(1)
			c.Transitions.Add(2)
			if msg := parseTotal(s); msg != "" {
				c.Violation(cc.sig("C19/parse", fmt.Sprintf("%q", s)), msg+fmt.Sprintf(" on %q", s), "C19/parse", s)
			}
			if k == 0 {
				return
			}
			for _, a := range sym {
				gen(s+a, k-1)
			}
		}
		gen(prefix, maxLen-2)
	})
	for _, s := range append([]string{""}, sym...) {
		if msg := parseTotal(s); msg != "" {
			c.Violation(cc.sig("C19/parse", fmt.Sprintf("%q", s)), msg, "C19/parse", s)
		}
	}
	c.Sample(map[string]any{"parser_input": "e8\x00٣q"})

	// (b) board-field token words
	tokens := []string{"K", "k", "p", "1", "3", "8", "9", "0", "/", "٣", "x", "8/8/8/8", "8/8/8/8/8/8/8/7", strings.Repeat("9", 28)}
	nt := len(tokens)
	tryFEN := func(s string) {
		c.Evaluations.Add(1)
		c.Traces.Add(1)
		c.States.Add(1)
		c.Transitions.Add(1)
		msg := decodeTotal(s)
		if msg != "" {
			cls := "C19/fen-other"
			switch {
			case strings.HasPrefix(msg, "panic"):
				cls = "C19/fen-panic"
			case strings.Contains(msg, "nil position"):
				cls = "C19/fen-nil"
			}
			c.Violation(cc.sig(cls, fmt.Sprintf("%q", s)), msg+fmt.Sprintf(" on %q", s), "C19/fen", s)
		}
	}
	words := c.Pick(5, 6)
	harness.Parallel(nt*nt, func(i int) {
		var gen func(s string, k int)
		gen = func(s string, k int) {
			tryFEN(s + " w - - 0 1")
			if k == 0 || c.Expired() {
				return
			}
			for _, t := range tokens {
				gen(s+t, k-1)
			}
		}
		gen(tokens[i/nt]+tokens[i%nt], words-2)
	})
	for _, t := range tokens {
		tryFEN(t + " w - - 0 1")
	}
	boards := []string{"8/8/8/8/8/8/8/8", "rnbqkbnr/pppppppp/8/8/8/8/PPPPPPPP/RNBQKBNR", "r3k2r/8/8/8/8/8/8/R3K2R", "4k3/8/8/3pP3/8/8/8/4K3"}
	sides := []string{"w", "b", "W", "B", "x", "", "wb", "-"}
	rights := []string{"-", "KQkq", "K", "qk", "KK", "x", "Kx", "", "kqKQ", "QQQQQQQQQ"}
	eps := []string{"-", "e3", "e6", "d6", "a1", "h8", "h1", "e9", "i3", "e", "e33", "E3", "٣3", "eĳ", "eĸ", "šĳ", "e\U00010033"}
	nums := []string{"0", "1", "99", "100", "-1", "x", "", "99999999999999999999", "+1", "1.0", "0x10", " 1", "٣"}
	for _, b := range boards {
		for _, s := range sides {
			for _, r := range rights {
				for _, e := range eps {
					for _, hm := range nums {
						for _, fm := range []string{"1", "0", "-1", "x", "99999999999999999999"} {
							tryFEN(strings.Join([]string{b, s, r, e, hm, fm}, " "))
						}
					}
				}
			}
		}
	}
	// both counters over the boundaries of every integer width a parser or a counter might use
	// (a value that is accepted must come back as itself, never wrapped or truncated), and over
	// other ways of writing a number
	wide := []string{"0", "1", "100", "101", "127", "128", "255", "256", "32767", "32768", "65535", "65536", "2147483647", "2147483648", "4294967295", "4294967296",
		"9223372036854775807", "9223372036854775808", "18446744073709551615", "18446744073709551616", "-0", "00", "007", "1e3", "1_000", "\uff11", "-9223372036854775808", "0b1", "0o7"}
	for _, b := range boards[1:] {
		for _, e := range []string{"-", "d6"} {
			for _, hm := range wide {
				for _, fm := range wide {
					tryFEN(strings.Join([]string{b, "w", "-", e, hm, fm}, " "))
				}
			}
		}
	}
	for _, extra := range []string{"", " ", " extra", "  "} {
		tryFEN(corpus.Initial + extra)
		tryFEN(extra + corpus.Initial)
		tryFEN(strings.Replace(corpus.Initial, " ", "  ", 1))
	}
	c.Sample(map[string]any{"fen_token_word": []string{"8/8/8/8", "8/8/8/8", "K", "9 x 28", "3"}, "fields": "w - - 0 1"})

	// (c) edits of valid FENs
	valid := []string{corpus.Initial, corpus.Kiwipete, "8/2p5/3p4/KP5r/1R3p1k/8/4P1P1/8 w - - 0 1", "rnbqkbnr/ppp1pppp/8/8/3pP3/8/PPPP1PPP/RNBQKBNR b KQkq e3 0 3",
		"r3k2r/8/8/8/8/8/8/R3K2R w KQkq - 12 30", "n1n5/PPPk4/8/8/8/8/4Kppp/5N1N b - - 0 1", "8/8/8/8/8/8/8/8 w - - 0 1", "k7/8/8/8/8/8/8/7K b - - 99 120",
		"4k3/8/8/8/4P3/8/8/4K3 b - e3 0 1", "QQQQQQQQ/Q7/8/8/8/8/7k/K7 b - - 0 1"}
	edits := []string{"K", "k", "p", "P", "1", "7", "8", "9", "0", "/", " ", "-", "w", "b", "q", "e", "3", "x", "٣", "é", "\x00", "+", "ı", "ĸ", "š", "ũ", "ŋ", "ő", "ī", "\U00010031"}
	mutate := func(s string, emit func(string)) {
		rs := []rune(s)
		for i := 0; i <= len(rs); i++ {
			if i < len(rs) {
				emit(string(rs[:i]) + string(rs[i+1:]))
			}
			for _, e := range edits {
				emit(string(rs[:i]) + e + string(rs[i:]))
				if i < len(rs) {
					emit(string(rs[:i]) + e + string(rs[i+1:]))
				}
			}
		}
	}
	harness.Parallel(len(valid), func(i int) {
		mutate(valid[i], func(s1 string) {
			tryFEN(s1)
			if c.Thorough() && i < 4 && !c.Expired() {
				mutate(s1, tryFEN)
			}
		})
	})
	c.Sample(map[string]any{"edited_fen": strings.Replace(corpus.Initial, "8/8", "8/9", 1)})

	// (d) move strings through the engine
	var nodes []*Node
	via := map[*Node][2]string{} // a node reached by a move: (parent FEN, move) - the engine then has a history
	{
		seen := map[string]bool{}
		for _, s := range corpus.Seeds {
			r := rootNode(s.FEN)
			if !seen[r.Ref.FEN(0, 1)] {
				seen[r.Ref.FEN(0, 1)] = true
				nodes = append(nodes, r)
			}
			if c.Thorough() || !strings.Contains(s.Tags, "big") {
				for _, m := range r.Ref.Legal() {
					q := r.Ref.Make(m)
					if !seen[q.FEN(0, 1)] {
						seen[q.FEN(0, 1)] = true
						n := refNode(q)
						via[n] = [2]string{r.Ref.FEN(3, 9), m.String()}
						nodes = append(nodes, n)
					}
				}
			}
		}
	}
	files, ranks, promos := "abcdefgh", "12345678", []string{"", "q", "r", "b", "n", "k", "p"}
	c.SetExtra("engine_move_positions", len(nodes))
	harness.Parallel(len(nodes), func(i int) {
		if c.Expired() {
			return
		}
		ctx := context.Background()
		f := nodes[i].Ref.FEN(3, 9)
		legal := map[string]ref.Move{}
		for _, m := range nodes[i].Ref.Legal() {
			legal[m.String()] = m
		}
		e := newPlainEngine(ctx)
		parent, hasHistory := via[nodes[i]]
		setup := func() error {
			if !hasHistory {
				return e.Reset(ctx, f)
			}
			if err := e.Reset(ctx, parent[0]); err != nil {
				return err
			}
			return e.Move(ctx, parent[1])
		}
		if hasHistory {
			g0, _ := ref.GameFromFEN(parent[0])
			if m0, ok := g0.Cur().FindMove(parent[1]); ok {
				g0.Push(m0)
				f = g0.FEN()
			}
		}
		if err := setup(); err != nil {
			c.Violation("C19/reset "+f, "Reset rejected a valid FEN: "+err.Error(), "C19/fen", f)
			return
		}
		before := bridge.Snapshot(e.Board(), true)
		data := func(s string) map[string]string {
			d := map[string]string{"FEN": f, "Move": s}
			if hasHistory {
				d["Parent"], d["Via"] = parent[0], parent[1]
			}
			return d
		}
		c.States.Add(1)
		try := func(s string) {
			c.Evaluations.Add(1)
			c.Transitions.Add(1)
			err := e.Move(ctx, s)
			rm, isLegal := legal[strings.ToLower(s)]
			if len([]rune(s)) > 5 {
				isLegal = false
			}
			bad := ""
			switch {
			case err == nil && !isLegal:
				bad = "accepted although it is not a legal move"
			case err != nil && isLegal:
				bad = "rejected although legal: " + err.Error()
			case err != nil:
				if bridge.Snapshot(e.Board(), true) != before {
					bad = "rejected but the game state changed"
				}
			default:
				c.Distinct(f + s)
				g, _ := ref.GameFromFEN(f)
				g.Push(rm)
				if e.Position() != g.FEN() {
					bad = fmt.Sprintf("accepted; engine reports %q, rules say %q", e.Position(), g.FEN())
				}
			}
			if err == nil {
				_ = e.TakeBack(ctx)
				if bridge.Snapshot(e.Board(), true) != before {
					_ = setup()
				}
			}
			if bad != "" {
				c.Violation(cc.sig("C19/move", f+" "+s), fmt.Sprintf("move string %q at %s: %s", s, f, bad), "C19/move", data(s))
				_ = setup()
			}
		}
		for _, f1 := range files {
			for _, r1 := range ranks {
				for _, f2 := range files {
					for _, r2 := range ranks {
						base := string(f1) + string(r1) + string(f2) + string(r2)
						for _, pr := range promos {
							try(base + pr)
						}
					}
				}
			}
		}
		for m := range legal {
			try(strings.ToUpper(m))
			try(m + " ")
			try(" " + m)
			try(m + "q")
			try(m[:3])
			try(m + "qq")
			// the same text with one character replaced by a rune that has the same low byte / low 16 bits
			rs := []rune(m)
			for i := range rs {
				for _, off := range []rune{0x100, 0x10000} {
					alias := append([]rune(nil), rs...)
					alias[i] += off
					try(string(alias))
				}
			}
		}
		c.Traces.Add(1)
	})
	c.Sample(map[string]any{"engine_move_position": "r3k2r/8/8/8/8/8/6n1/R3K2R w KQkq - 3 9", "strings": "a1a1 .. h8h8p (28672) + case/length variants", "legal_per_reference": 23})
	// (e) rejected set-ups and take-backs on an engine that has a game: every FEN of the single-edit
	// family that does not decode, an empty string and a take-back at the root leave the game as it was
	{
		ctx := context.Background()
		type st struct {
			fen   string
			moves []string
		}
		games := []st{{corpus.Initial, []string{"e2e4", "e7e5", "g1f3"}}, {"r3k2r/8/8/8/8/8/8/R3K2R w KQkq - 3 9", []string{"e1g1"}}, {"k7/p7/P7/8/8/7p/7P/7K b - - 97 140", nil}}
		var bad []string
		for _, base := range []string{corpus.Initial, "r3k2r/8/8/8/8/8/8/R3K2R w KQkq - 3 9"} {
			for i := 0; i <= len(base); i++ {
				for _, a := range []string{"", "9", "x", "/", " ", "K", "0", "-"} {
					if i < len(base) {
						bad = append(bad, base[:i]+a+base[i+1:]) // replace (or delete when a is empty)
					}
					bad = append(bad, base[:i]+a+base[i:]) // insert
				}
			}
		}
		bad = append(bad, "", " ", "startpos", "8/8/8/8/8/8/8/8 w - - 0 1 extra")
		harness.Parallel(len(games), func(gi int) {
			e := newPlainEngine(ctx)
			setup := func() {
				_ = e.Reset(ctx, games[gi].fen)
				for _, m := range games[gi].moves {
					_ = e.Move(ctx, m)
				}
			}
			setup()
			before := bridge.Snapshot(e.Board(), true) + "|" + e.Position()
			for _, f := range bad {
				if _, _, _, _, err := fen.Decode(f); err == nil {
					continue // a valid FEN: Reset is meant to replace the game
				}
				c.Evaluations.Add(1)
				err := e.Reset(ctx, f)
				after := bridge.Snapshot(e.Board(), true) + "|" + e.Position()
				if err == nil || after != before {
					c.Violation(cc.sig("C19/reset-rejected", f), fmt.Sprintf("Reset(%q) on an engine with a game: err=%v; the FEN does not decode, the game must stay as it was\n      before %s\n      after  %s", f, err, before, after), "C19/note", f)
					setup()
				}
			}
			// take back everything, then once more
			for range games[gi].moves {
				_ = e.TakeBack(ctx)
			}
			root := bridge.Snapshot(e.Board(), true) + "|" + e.Position()
			if err := e.TakeBack(ctx); err != nil && bridge.Snapshot(e.Board(), true)+"|"+e.Position() != root {
				c.Violation(cc.sig("C19/takeback-at-root", games[gi].fen), fmt.Sprintf("TakeBack with nothing to take back was refused (%v) but changed the game", err), "C19/note", games[gi].fen)
			}
		})
		c.SetExtra("rejected_setups_tried", len(bad))
	}
	// late in a game: after the third and after the FIFTH occurrence of a position (16 reversible
	// plies) every legal move is still a move the game accepts - a draw, claimable or not, is not the
	// board's business when it is asked whether a move string denotes a legal move
	shuffle := []string{"g1f3", "g8f6", "f3g1", "f6g8"}
	for _, rounds := range []int{2, 3, 4, 5} {
		var hist []string
		for i := 0; i < rounds; i++ {
			hist = append(hist, shuffle...)
		}
		g, _ := ref.GameFromFEN(corpus.Initial)
		for _, t := range hist {
			rm, _ := g.Cur().FindMove(t)
			g.Push(rm)
		}
		for _, rm := range g.Cur().Legal() {
			c.Evaluations.Add(1)
			line := append(append([]string(nil), hist...), rm.String())
			if _, msg := engineLine(corpus.Initial, line); msg != "" {
				c.Violation(cc.sig("C19/move-late", fmt.Sprintf("%d rounds %s", rounds, rm)), msg, "C01/engine-line", append([]string{corpus.Initial}, line...))
			}
		}
	}
	c.Finish()
}
