package seq

import (
	"encoding/json"
	"fmt"
	"os"
	"strings"
	"time"

	"github.com/herohde/morlock/pkg/board"
	"verif/bridge"
	"verif/corpus"
	"verif/harness"
	"verif/ref"
)

func init() {
	Checks["C05"] = checkC05
	Replayers["C05/history"] = func(data json.RawMessage) (bool, string) {
		var d struct {
			FEN    string
			Moves  []string
			ForkAt int
			Seed   int64
		}
		_ = json.Unmarshal(data, &d)
		g, err := ref.GameFromFEN(d.FEN)
		if err != nil {
			return false, "bad FEN"
		}
		b := bridge.NewBoard(d.FEN, d.Seed)
		last := ""
		for i, t := range d.Moves {
			if d.ForkAt == i {
				b = b.Fork()
			}
			rm, ok := g.Cur().FindMove(t)
			m, ok2 := bridge.FindImpl(b.Position(), b.Turn(), t)
			if !ok || !ok2 || !b.PushMove(m) {
				return false, "cannot replay move " + t
			}
			g.Push(rm)
			if _, msg := c05Oracle(b, g); msg != "" {
				last = fmt.Sprintf("after move %d (%s): %s", i+1, t, msg)
			}
		}
		return last != "", last
	}
}

// c05Oracle compares what the board reports after a push with the reference game.
func c05Oracle(b *board.Board, g *ref.Game) (string, string) {
	drawn := b.Result().Outcome == board.Draw
	n := g.Len() - 1
	cnt, clock := g.Count[n], g.Clock[n]
	if b.NoProgress() != clock {
		return "clock", fmt.Sprintf("half-move clock %d, rules say %d", b.NoProgress(), clock)
	}
	switch {
	case g.DrawNow() && !drawn:
		why := "insufficient material"
		if cnt >= 3 {
			why = fmt.Sprintf("occurrence %d of the position", cnt)
		} else if clock >= 100 {
			why = fmt.Sprintf("clock %d", clock)
		}
		cls := "missed-insufficient"
		if cnt >= 3 {
			cls = "missed-repetition"
		} else if clock >= 100 {
			cls = "missed-fifty"
		}
		return cls, "not reported drawn although a draw condition was just met (" + why + "); result " + b.Result().String()
	case !g.AnyEvent() && drawn:
		return "false-draw", fmt.Sprintf("reported drawn (%v) in a game where no draw condition has occurred (count %d, clock %d)", b.Result().Reason, cnt, clock)
	}
	// what a user reads: the names are judged by their text, not by comparison with the package's own
	// constants (two constants spelled alike would compare equal to themselves)
	text := strings.ToLower(b.Result().String())
	if drawn && !strings.HasPrefix(text, "1/2-1/2") {
		return "draw-text", fmt.Sprintf("a drawn game reads %q", b.Result().String())
	}
	if g.DrawNow() && drawn && cnt >= 5 && clock < 100 && !(lastWasMaterial(g) && ref.Insufficient(g.Cur())) {
		if r := strings.ToLower(string(b.Result().Reason)); b.Result().Reason != board.Repetition5 || !(strings.Contains(r, "5") || strings.Contains(r, "five")) || strings.Contains(r, "3") || strings.Contains(r, "three") {
			return "fivefold-name", fmt.Sprintf("fifth occurrence reported as %q", b.Result().Reason)
		}
	}
	if len(g.Cur().Legal()) == 0 {
		f := b.Fork()
		r := f.AdjudicateNoLegalMoves()
		inCheck := g.Cur().InCheck(g.Cur().White)
		if inCheck != (r.Reason == board.Checkmate) || (!inCheck && r.Reason != board.Stalemate) {
			return "adjudication", fmt.Sprintf("no legal move, in check=%v, adjudicated %v", inCheck, r)
		}
		if rt := strings.ToLower(string(r.Reason)); inCheck != (strings.Contains(rt, "checkmate") && !strings.Contains(rt, "stalemate")) || (!inCheck && !strings.Contains(rt, "stalemate")) {
			return "adjudication", fmt.Sprintf("no legal move, in check=%v, adjudication reads %q", inCheck, r.String())
		}
		wantText := "1/2-1/2"
		if inCheck {
			wantText = "0-1"
			if !g.Cur().White {
				wantText = "1-0"
			}
		}
		if !strings.HasPrefix(r.String(), wantText+" ") {
			return "adjudication", fmt.Sprintf("no legal move, in check=%v, white to move=%v: adjudication reads %q", inCheck, g.Cur().White, r.String())
		}
		if inCheck {
			want := board.BlackWins
			if !g.Cur().White {
				want = board.WhiteWins
			}
			if r.Outcome != want {
				return "adjudication", fmt.Sprintf("checkmate adjudicated as %v", r)
			}
		} else if r.Outcome != board.Draw {
			return "adjudication", fmt.Sprintf("stalemate adjudicated as %v", r)
		}
	}
	return "", ""
}

const degenerate = "[every position hashing to 0] "

func lastWasMaterial(g *ref.Game) bool {
	if len(g.Moves) == 0 {
		return false
	}
	m := g.Moves[len(g.Moves)-1]
	return m.Kind == ref.Capture || ((m.Kind == ref.Promotion || m.Kind == ref.CapturePromotion) && (m.Promo == ref.B || m.Promo == ref.N))
}

type c05job struct {
	fen    string
	depth  int
	filter func(g *ref.Game, m ref.Move) bool
	forkAt int
	noPop  bool
	what   string
}

func officersOnly(kinds ...int8) func(g *ref.Game, m ref.Move) bool {
	return func(g *ref.Game, m ref.Move) bool {
		for _, k := range kinds {
			if m.Piece == k && m.Captured == 0 {
				return true
			}
		}
		return false
	}
}

func checkC05(c *harness.Check) {
	mustAnchors(c)
	c.Rule = "all PushMove sequences to depth n on a real game board with the reference game in lock-step: (a) <=3-move fortress roots, (b) knight/rook/king shuffles on the start position and on castling-rights roots (repetition with the start position; repetition separated by a rights change; castling and the clock), (c) roots set up with clock 93..99 and with clocks beyond the limit around every integer width (101..2^31-3), incl. three where every kind of move occurs (en passant, double steps, castling, promotions with and without capture: which of them restart the clock), (d) depth-2 walks from every placement of two bishops (one each / both on one side) and from K+minor/K+P material roots (captures, under-promotions), (e) the same sequences with the tail played on a Fork() taken at every depth, (f) fresh board per path (no take-back involved), (g) mate and stalemate nets in games that already carry an unclaimed repetition or reach clock 100 with the mating move, (h) the repetition walks again (depth <= 9) on boards whose Zobrist table is the zero value - every position hashes to 0, the '2^-64 coincidence' at every step: what is reported about positions must not change. Oracle after every push: draw event now => reported drawn (five-fold named); no event in the whole game => not drawn; clock equal; move-less nodes adjudicated mate iff in check. distinct_nontrivial = distinct (root, repetition count, clock>=100, insufficient, reported reason) classes over nodes with a draw event"
	var cc classCap
	onPush := func(root string, forkAt int, seed int64) func(b *board.Board, g *ref.Game, path []string) {
		return func(b *board.Board, g *ref.Game, path []string) {
			c.Evaluations.Add(1)
			c.States.Add(1)
			if cls, msg := c05Oracle(b, g); msg != "" {
				full := fmt.Sprintf("%s moves %s fork@%d", root, strings.Join(path, " "), forkAt)
				if seed == bridge.DegenerateSeed {
					full += " (every position hashing to 0)"
				}
				c.Violation(cc.sig("C05/"+cls, full), msg+" at "+full, "C05/history", map[string]any{"FEN": root, "Moves": append([]string(nil), path...), "ForkAt": forkAt, "Seed": seed})
			}
			if g.DrawNow() {
				n := g.Len() - 1
				c.Distinct(fmt.Sprint(root[:12], g.Count[n], g.Clock[n] >= 100, ref.Insufficient(g.Cur()), b.Result().Reason))
			}
		}
	}
	var jobs []c05job
	add := func(j c05job) { jobs = append(jobs, j) }
	// confined: kings shuffle inside three squares each, so branching is <= 2 and long histories
	// (five-fold needs >= 16 plies) stay enumerable
	confined := func(g *ref.Game, m ref.Move) bool {
		switch m.To {
		case 5, 6, 7, 56, 57, 58: // f1 g1 h1 / a8 b8 c8
			return m.Piece == ref.K
		case 62, 53, 1, 10: // g8/f7 and b1/c2: the bishops of the second fortress
			return m.Piece == ref.B
		}
		return false
	}
	fort := []string{"k7/p7/P7/8/8/7p/7P/7K w - - 0 1", "kb6/p7/P7/8/8/7p/7P/6BK w - - 0 1", "k7/p7/P7/8/8/7p/7P/7K b - - 3 9"}
	for _, f := range fort {
		add(c05job{f, c.Pick(7, 9), nil, -1, false, "fortress, all moves"})
		add(c05job{f, c.Pick(17, 21), confined, -1, false, "fortress, confined shuffle (reaches five-fold)"})
		for k := 0; k <= c.Pick(12, 17); k++ {
			add(c05job{f, c.Pick(13, 17), confined, k, false, "fortress confined + fork"})
		}
		add(c05job{f, c.Pick(11, 13), confined, -1, true, "fortress confined, fresh board per path"})
		add(c05job{f, c.Pick(4, 5), nil, -1, true, "fortress, fresh board per path"})
	}
	for clock := 93; clock <= 99; clock++ {
		add(c05job{fmt.Sprintf("k7/p7/P7/8/8/7p/7P/7K w - - %d 60", clock), c.Pick(5, 7), nil, -1, false, "clock carried in"})
		add(c05job{fmt.Sprintf("k7/p7/P7/8/8/7p/7P/7K w - - %d 60", clock), c.Pick(10, 12), confined, -1, false, "clock carried in, confined"})
		add(c05job{fmt.Sprintf("k7/p7/P7/8/8/7p/7P/7K w - - %d 60", clock), 9, confined, 3, false, "clock carried in, confined, forked"})
		add(c05job{fmt.Sprintf("r3k2r/8/8/8/8/8/8/R3K2R w KQkq - %d 60", clock), c.Pick(2, 3), nil, -1, false, "clock + castling"})
	}
	add(c05job{"k7/p7/P7/8/8/7p/7P/7K w - - 100 70", 3, nil, -1, false, "clock already at limit"})
	// the fifty-move draw has to be claimed: games go on past 100, and a set-up may carry any clock.
	// Values around every width a clock might be squeezed into (signed/unsigned 8, 16, 32 bits)
	for _, clock := range []int{101, 126, 127, 128, 129, 149, 254, 255, 256, 32766, 32767, 32768, 65535, 65536, 1<<31 - 3} {
		add(c05job{fmt.Sprintf("k7/p7/P7/8/8/7p/7P/7K w - - %d 90", clock), 3, nil, -1, false, "clock beyond the limit carried in"})
		add(c05job{fmt.Sprintf("k7/p7/P7/8/8/7p/7P/7K b - - %d 90", clock), 2, nil, 1, false, "clock beyond the limit carried in, forked"})
	}
	// a fortress with one free pawn each: the DFS explores (and takes back) an irreversible move
	// before completing repetitions that started earlier on the same line
	freePawn := func(g *ref.Game, m ref.Move) bool {
		return confined(g, m) || (m.Piece == ref.P && m.Captured == 0 && (m.From%8 == 4))
	}
	add(c05job{"k7/p3p3/P7/8/8/7p/4P2P/7K w - - 0 1", c.Pick(11, 13), freePawn, -1, false, "fortress + free pawns (take-back of irreversible moves inside repetitions)"})
	add(c05job{"k7/p3p3/P7/8/8/7p/4P2P/7K w - - 0 1", c.Pick(10, 11), freePawn, 5, false, "fortress + free pawns, forked at 5"})
	add(c05job{corpus.Initial, c.Pick(8, 10), officersOnly(ref.N), -1, false, "start position knight shuffle"})
	add(c05job{corpus.Initial, c.Pick(8, 9), func(g *ref.Game, m ref.Move) bool {
		return m.Piece == ref.N && (m.From == 6 || m.To == 6 || m.From == 62 || m.To == 62)
	}, 4, false, "start position knight shuffle, forked at 4"})
	backRank := func(g *ref.Game, m ref.Move) bool {
		return (m.Piece == ref.K || m.Piece == ref.R) && m.Captured == 0 && m.From/8 == m.To/8
	}
	add(c05job{"r3k2r/8/8/8/8/8/8/R3K2R w KQkq - 0 1", c.Pick(5, 6), backRank, -1, false, "rights change between repeats, castling"})
	add(c05job{"r3k2r/8/8/8/8/8/8/R3K2R w KQkq - 0 1", 3, officersOnly(ref.K, ref.R), -1, false, "castling corners, all king and rook moves"})
	add(c05job{"r3k3/8/8/8/8/8/8/4K2R w Kq - 0 1", c.Pick(8, 9), backRank, -1, false, "rights change between repeats"})
	add(c05job{"4k3/8/8/8/8/8/8/R3K2R w KQ - 10 20", c.Pick(6, 7), backRank, -1, false, "castling and the clock"})
	add(c05job{"rnbqkbnr/ppp1pppp/8/8/3pP3/8/PPPP1PPP/RNBQKBNR b KQkq e3 0 3", c.Pick(8, 9), func(g *ref.Game, m ref.Move) bool {
		return m.Piece == ref.N && (m.From == 6 || m.To == 6 || m.From == 62 || m.To == 62)
	}, -1, false, "e.p. target distinguishes the first occurrence"})

	// every kind of move and the clock: en passant (a capture that is not of type Capture), double
	// steps, castling (the one non-pawn, non-capturing special move), promotions with and without capture
	add(c05job{"4k3/8/8/3pP3/8/8/8/4K2R w K d6 97 60", c.Pick(3, 4), nil, -1, false, "en passant / castling and a clock near the limit"})
	add(c05job{"4k3/3p4/8/4P3/8/8/8/R3K3 b Q - 96 60", c.Pick(4, 5), nil, -1, false, "double step, then en passant, clock near the limit"})
	add(c05job{"1n2k3/P7/8/8/8/8/7P/R3K3 w Q - 97 60", c.Pick(3, 4), nil, -1, false, "promotions, capture-promotions, double step, castling; clock near the limit"})

	// mate and stalemate reached in a game that already carries a draw event (an unclaimed
	// repetition earlier on, the clock reaching 100 with the mating move itself): adjudication
	// must still say mate / stalemate
	only := func(allowed map[int8][]int8) func(g *ref.Game, m ref.Move) bool {
		return func(g *ref.Game, m ref.Move) bool {
			for _, to := range allowed[m.Piece] {
				if to == m.To {
					return true
				}
			}
			return false
		}
	}
	add(c05job{"6k1/5ppp/8/8/8/8/8/R3K3 w - - 0 1", c.Pick(9, 11), only(map[int8][]int8{ref.R: {0, 8, 56}, ref.K: {62, 63}}), -1, false, "back-rank mate after an unclaimed repetition"})
	add(c05job{"6k1/5ppp/8/8/8/8/8/R3K3 w - - 0 1", 9, only(map[int8][]int8{ref.R: {0, 8, 56}, ref.K: {62, 63}}), 4, false, "back-rank mate after an unclaimed repetition, forked"})
	add(c05job{"7k/8/6K1/8/8/8/8/5Q2 w - - 0 1", c.Pick(9, 11), only(map[int8][]int8{ref.Q: {5, 13, 53}, ref.K: {62, 63}}), -1, false, "stalemate after an unclaimed repetition"})
	for clock := 97; clock <= 99; clock++ {
		add(c05job{fmt.Sprintf("6k1/5ppp/8/8/8/8/8/R3K3 w - - %d 80", clock), 3, only(map[int8][]int8{ref.R: {0, 8, 56}, ref.K: {62, 63, 3, 4}}), -1, false, "mate on / after the hundredth half-move"})
		add(c05job{fmt.Sprintf("7k/8/6K1/8/8/8/8/5Q2 w - - %d 80", clock), 3, only(map[int8][]int8{ref.Q: {5, 13, 53}, ref.K: {62, 63}}), -1, false, "stalemate on / after the hundredth half-move"})
	}

	// (d) material roots: depth-2 walks (captures and under-promotions at ply 1 and 2)
	material := []string{
		"4k3/8/8/8/8/8/1p6/K7 w - - 0 1", "4k3/8/8/8/8/8/1p6/K1N5 w - - 0 1", "4k3/8/8/8/8/8/1n6/K7 w - - 0 1", "4k3/8/8/8/8/8/1b6/K7 w - - 0 1",
		"4k3/8/8/8/8/8/1r6/K7 w - - 0 1", "4k3/P7/8/8/8/8/8/K7 w - - 0 1", "1n2k3/P7/8/8/8/8/8/K7 w - - 0 1", "4k3/8/8/8/8/8/p7/1N2K3 b - - 0 1",
		"4k3/8/8/8/8/8/1pn5/K7 w - - 0 1", "4k3/8/8/8/8/1n6/1p6/K7 w - - 0 1", "4k3/8/8/8/8/8/1p4N1/K5n1 w - - 0 1",
	}
	for _, f := range material {
		add(c05job{f, 2, nil, -1, false, "material"})
	}
	// every placement of two bishops around a capturable pawn
	for s1 := 0; s1 < 64; s1++ {
		for s2 := 0; s2 < 64; s2++ {
			if s1 == s2 {
				continue
			}
			for _, owners := range [][2]int8{{ref.B, -ref.B}, {ref.B, ref.B}, {-ref.B, -ref.B}} {
				p := &ref.Pos{EP: -1, White: true}
				p.Sq[0], p.Sq[9], p.Sq[63] = ref.K, -ref.P, -ref.K // Ka1, pb2, kh8
				if p.Sq[s1] != 0 || p.Sq[s2] != 0 {
					continue
				}
				if owners[0] == owners[1] && s1 > s2 {
					continue
				}
				p.Sq[s1], p.Sq[s2] = owners[0], owners[1]
				if !corpus.Valid(p) {
					continue
				}
				add(c05job{p.FEN(0, 1), c.Pick(1, 2), func(g *ref.Game, m ref.Move) bool { return g.Len() > 1 || m.Captured != 0 }, -1, false, "two bishops"})
			}
		}
	}
	c.SetExtra("roots", len(jobs))
	type sub struct {
		w     *HistWalk
		depth int
	}
	// the walks whose subject is repetition, once more on boards whose hash table maps every position
	// to 0: a draw by repetition is a statement about positions, never about hashes
	for _, j := range append([]c05job(nil), jobs...) {
		if strings.Contains(j.what, "shuffle") || strings.Contains(j.what, "repeat") || strings.Contains(j.what, "repetition") || strings.Contains(j.what, "first occurrence") || strings.Contains(j.what, "free pawns") {
			j.what = degenerate + j.what
			if j.depth > 9 {
				j.depth = 9
			}
			add(j)
		}
	}
	var subs []sub
	for _, j := range jobs {
		seed := int64(0)
		if strings.HasPrefix(j.what, degenerate) {
			seed = bridge.DegenerateSeed
		}
		w := &HistWalk{C: c, Root: j.fen, Seed: seed, Filter: j.filter, ForkAt: j.forkAt, NoPop: j.noPop, OnPush: onPush(j.fen, j.forkAt, seed)}
		if j.depth >= 5 {
			for _, sw := range w.Split(3) {
				subs = append(subs, sub{sw, j.depth})
			}
		} else {
			subs = append(subs, sub{w, j.depth})
		}
	}
	c.SetExtra("sub_walks", len(subs))
	harness.Parallel(len(subs), func(i int) {
		t0 := time.Now()
		subs[i].w.Run(subs[i].depth)
		if d := time.Since(t0); d > 5*time.Second && os.Getenv("VERIF_DEBUG") != "" {
			fmt.Fprintf(os.Stderr, "slow sub-walk %.1fs: %s prefix=%v depth=%d fork=%d nopop=%v\n", d.Seconds(), subs[i].w.Root, subs[i].w.Prefix, subs[i].depth, subs[i].w.ForkAt, subs[i].w.NoPop)
		}
	})
	c.Sample(map[string]any{"root": corpus.Initial, "moves": "g1f3 g8f6 f3g1 f6g8 g1f3 g8f6 f3g1 f6g8", "expect": "drawn: third occurrence of the start position"})
	c.Sample(map[string]any{"root": "4k3/8/8/8/8/8/1pb5/K1B5 w - - 0 1", "moves": "a1b2", "expect": "not drawn: bishops on opposite colours"})
	c.Sample(map[string]any{"root": "r3k2r/8/8/8/8/8/8/R3K2R w KQkq - 98 60", "moves": "e1g1 e8g8", "expect": "drawn: clock 100 (castling does not reset it)"})
	c.Finish()
}
