package seq

import (
	"context"
	"encoding/json"
	"fmt"
	"os"
	"strings"
	"time"

	"github.com/herohde/morlock/pkg/board"
	"github.com/herohde/morlock/pkg/engine"
	"github.com/herohde/morlock/pkg/engine/uci"
	"verif/bridge"
	"verif/corpus"
	"verif/harness"
	"verif/ref"
)

func init() {
	Checks["C10"] = checkC10
	Replayers["C10/word"] = func(data json.RawMessage) (bool, string) {
		var w []string
		_ = json.Unmarshal(data, &w)
		_, msg := runC10(w)
		return msg != "", msg
	}
}

// uciSession drives a real driver synchronously: a line, then isready/readyok as hand-shake.
type uciSession struct {
	e   *engine.Engine
	in  chan string
	out <-chan string
}

func newSession() *uciSession {
	ctx := context.Background()
	e := newPlainEngine(ctx)
	in := make(chan string, 1)
	_, out := uci.NewDriver(ctx, e, in)
	return &uciSession{e: e, in: in, out: out}
}

// send returns false if the driver terminated instead of answering the hand-shake.
func (s *uciSession) send(line string) bool {
	hang := time.After(30 * time.Second)
	for _, l := range []string{line, "isready"} {
		select {
		case s.in <- l:
		case <-hang:
			fmt.Fprintln(os.Stderr, "HARNESS-ERROR: driver does not take input")
			os.Exit(2)
		}
	}
	for {
		select {
		case l, ok := <-s.out:
			if !ok {
				return false
			}
			if l == "readyok" {
				return true
			}
		case <-hang:
			fmt.Fprintln(os.Stderr, "HARNESS-ERROR: no readyok within 30s")
			os.Exit(2)
		}
	}
}

func (s *uciSession) close() {
	select {
	case s.in <- "quit":
	default:
	}
}

// gameOfLine returns the game a position command describes.
func gameOfLine(line string) *ref.Game {
	args := strings.Fields(line)[1:]
	start := corpus.Initial
	if len(args) >= 7 && args[0] == "fen" {
		start = strings.Join(args[1:7], " ")
	}
	g, err := ref.GameFromFEN(start)
	if err != nil {
		return nil
	}
	mv := false
	for _, a := range args {
		if a == "moves" {
			mv = true
			continue
		}
		if !mv {
			continue
		}
		m, ok := g.Cur().FindMove(a)
		if !ok {
			return nil
		}
		g.Push(m)
	}
	return g
}

// probeHistory plays every continuation to the given depth on a fork of the engine's board and
// compares the draw reports with the reference game: the repetition history, not just the
// position, must be the one the command describes.
func probeHistory(b *board.Board, g *ref.Game, depth int) string {
	if depth == 0 {
		return ""
	}
	n := 0
	for _, rm := range g.Cur().Legal() {
		if rm.Piece != ref.N && rm.Piece != ref.K && rm.Piece != ref.R {
			continue
		}
		if n++; n > 6 {
			break
		}
		m, ok := bridge.FindImpl(b.Position(), b.Turn(), rm.String())
		if !ok || !b.PushMove(m) {
			return "continuation " + rm.String() + " rejected"
		}
		g.Push(rm)
		_, msg := c05Oracle(b, g)
		if msg == "" {
			msg = probeHistory(b, g, depth-1)
		}
		g.Pop()
		b.PopMove()
		if msg != "" {
			return "continuing with " + rm.String() + ": " + msg
		}
	}
	return ""
}

func runC10(word []string) (string, string) {
	s := newSession()
	defer s.close()
	last := ""
	for i, w := range word {
		if !s.send(w) {
			return "driver-died", fmt.Sprintf("the driver terminated on command %d of %q (a valid command)", i+1, word)
		}
		if strings.HasPrefix(w, "position") {
			last = w
		}
	}
	if last == "" {
		return "", ""
	}
	g := gameOfLine(last)
	if g == nil {
		return "", ""
	}
	// (1) absolute: the engine's game is the one the last command describes
	if got, want := s.e.Position(), g.FEN(); got != want {
		return "position", fmt.Sprintf("after %q the engine reports %q; the last position command describes %q", word, got, want)
	}
	eb := s.e.Board()
	if eb.Ply() != g.Len() || eb.NoProgress() != g.CurClock() || eb.FullMoves() != g.CurFull() {
		return "counters", fmt.Sprintf("after %q: ply %d clock %d moves %d; the last command describes ply %d clock %d moves %d", word, eb.Ply(), eb.NoProgress(), eb.FullMoves(), g.Len(), g.CurClock(), g.CurFull())
	}
	// drawn if a draw condition has just been met, not drawn if none was ever met in the described
	// game; in between (a draw could have been claimed earlier and the game went on) the board keeps
	// its earlier verdict, which C05 allows
	if drawn := eb.Result().Outcome == board.Draw; (g.DrawNow() && !drawn) || (!g.AnyEvent() && drawn) {
		return "draw-state", fmt.Sprintf("after %q the game is drawn=%v; the last command describes a game with a draw condition met now=%v / ever=%v", word, drawn, g.DrawNow(), g.AnyEvent())
	}
	// (2) differential: same as a fresh driver given only the last command
	f := newSession()
	defer f.close()
	if !f.send(last) {
		return "driver-died", fmt.Sprintf("a fresh driver terminated on %q", last)
	}
	if a, b := bridge.Snapshot(eb, true), bridge.Snapshot(f.e.Board(), true); a != b {
		return "differs-from-fresh", fmt.Sprintf("after %q the game state differs from setting up %q from scratch:\n      incremental %s\n      fresh       %s", word, last, a, b)
	}
	// (3) the history used for repetition detection
	if msg := probeHistory(eb, g.Clone(), 2); msg != "" {
		return "history", fmt.Sprintf("after %q: %s", word, msg)
	}
	if msg := probeHistory(f.e.Board(), g.Clone(), 2); msg != "" {
		return "history-fresh", fmt.Sprintf("after %q alone: %s", last, msg)
	}
	return "", ""
}

func checkC10(c *harness.Check) {
	mustAnchors(c)
	F := "r3k2r/8/8/8/8/8/8/R3K2R w KQkq - 0 1"
	F10 := "r3k2r/8/8/8/8/8/8/R3K2R w KQkq - 0 10"
	alphabet := []string{
		"position startpos",
		"position startpos moves g1f3",
		"position startpos moves g1f3 g8f6",
		"position startpos moves g1f3 g8f6 f3g1 f6g8",
		"position startpos moves g1f3 g8f6 f3g1 f6g8 g1f3 g8f6 f3g1",
		"position startpos moves g1f3 g8f6 f3g1 f6g8 g1f3 g8f6 f3g1 f6g8",
		"position startpos moves g1f3 g8f6 f3g1 f6g8 g1f3 g8f6 f3g1 f6g8 e2e4", // the game goes on after a draw could have been claimed (third occurrence)
		"position fen r3k2r/8/8/8/8/8/8/R3K2R w KQkq - 99 60 moves a1b1 a8b8",  // ... and after the hundredth half-move
		"position startpos moves e2e4",
		"position startpos moves g1f3 g8f6 f3g1 f6g8 g1f3 g8f6 f3g1 f6g8 g1f3 g8f6 f3g1 f6g8 g1f3 g8f6 f3g1 f6g8 e2e4 e7e5", // ... and after the FIFTH occurrence
		"position fen " + F,
		"position fen " + F + " moves e1g1",
		"position fen " + F + " moves e1g1 e8c8",
		"position fen " + F10,
		"position fen " + F10 + " moves a1a8",
		"position fen r3k2r/8/8/8/8/8/8/R3K2R w KQkq - 0 0", // the same position with other clocks: full-move number 0 ...
		"position fen r3k2r/8/8/8/8/8/8/R3K2R w KQkq - 5 1", // ... and a running half-move clock
		"position fen r3k2r/8/8/8/8/8/8/R3K2R w K - 0 1",    // two FENs that differ ONLY in the case of one letter (whose castling right)
		"position fen r3k2r/8/8/8/8/8/8/R3K2R w k - 0 1",
		"position  startpos   moves  g1f3 ", // the g1f3 line again with other white space between the tokens
		"ucinewgame",
		"position fen rnbqkbnr/pppppppp/8/8/8/8/PPPPPPPP/RNBQKBNR w KQkq - 4 3", // the very FEN the knight shuffle above reaches
		"position fen 2kr3r/8/8/8/8/8/8/R4RK1 w - - 2 2",                        // the very FEN `F moves e1g1 e8c8` reaches
		"position fen 8/P6k/8/8/8/8/2p5/K7 w - - 3 40 moves a7a8q",              // move tokens of five characters (promotions), last in the list ...
		"position fen 8/P6k/8/8/8/8/2p5/K7 w - - 3 40 moves a7a8q c2c1n a1b2",   // ... and inside it
		"position fen 8/P6k/8/8/8/8/2p5/K7 w - - 3 40",
	}
	for _, l := range alphabet {
		if strings.HasPrefix(l, "position") && gameOfLine(l) == nil {
			fmt.Fprintln(os.Stderr, "HARNESS-ERROR: the C10 alphabet contains a line that does not describe a legal game:", l)
			os.Exit(2)
		}
	}
	// the lines among which words of full length are formed; shorter words use the whole alphabet
	core := map[string]bool{}
	for _, i := range []int{0, 1, 2, 5, 6, 10, 11, 12, 13, 17, 18, 20, 23, 24} {
		core[alphabet[i]] = true
	}
	maxLen := c.Pick(4, 5)
	c.Rule = fmt.Sprintf("all command words of length < %d over an alphabet of %d lines (and of that length with a last line from a core of 14) built from three games: startpos with move lists that extend one another (incl. a knight shuffle that brings the start position back two and three times, and ones that play on after the third and after the fifth time; a line that plays on after the hundredth half-move), another first move, a FEN with move lists that extend one another (castling both sides), the same FEN with other clocks (a longer full-move number that makes one line a textual prefix of another, full-move number 0, a running half-move clock), two FENs that spell out exactly the position (and clocks) a moves line of the alphabet reaches, two FENs that differ only in the case of one letter, a line repeated with other white space between its tokens, a FEN with move lists that contain promotions (five-character tokens), and ucinewgame; verbatim repeats, shortenings and extensions all arise as words. Every line goes to a real uci.Driver followed by the isready/readyok hand-shake. Oracle after each word: driver alive; Engine.Position(), ply, clock, full moves, draw state equal the reference game of the LAST position command alone; full board snapshot equal to a fresh driver given only that command; every continuation to depth 2 on a fork reports draws exactly where the reference game does (the repetition history is compared, not just the position). distinct_nontrivial = distinct (last command, previous command) pairs", maxLen, len(alphabet))
	var words [][]string
	var gen func(w []string)
	gen = func(w []string) {
		if len(w) > 0 {
			words = append(words, append([]string(nil), w...))
		}
		if len(w) == maxLen {
			return
		}
		for _, a := range alphabet {
			if len(w)+1 == maxLen && !core[a] {
				continue // the last position of a full-length word: core lines only
			}
			gen(append(w, a))
		}
	}
	gen(nil)
	var cc classCap
	harness.Parallel(len(words), func(i int) {
		if c.Expired() {
			return
		}
		w := words[i]
		cls, msg := runC10(w)
		c.Evaluations.Add(1)
		c.Traces.Add(1)
		c.States.Add(1)
		c.Transitions.Add(int64(len(w)))
		if msg != "" {
			c.Violation(cc.sig("C10/"+cls, strings.Join(w, " ; ")), msg, "C10/word", w)
		}
		if len(w) >= 2 {
			c.Distinct(w[len(w)-2] + "|" + w[len(w)-1])
		}
	})
	c.Sample(words[len(words)/3])
	c.Sample(words[len(words)-1])
	c.Finish()
}
