package seq

import (
	"context"
	"encoding/json"
	"fmt"
	"os"
	"strings"
	"time"

	"github.com/herohde/morlock/pkg/board"
	"github.com/herohde/morlock/pkg/eval"
	"github.com/herohde/morlock/pkg/search"
	"verif/bridge"
	"verif/harness"
	"verif/ref"
	"verif/refsearch"
)

func init() {
	Checks["C03"] = checkC03
	Replayers["C03/ponder"] = func(data json.RawMessage) (bool, string) {
		var cs c03case
		_ = json.Unmarshal(data, &cs)
		_, msg, _, _ := runPonder(context.Background(), cs, 200_000_000)
		return msg != "", msg
	}
	Replayers["C03/table-history"] = func(data json.RawMessage) (bool, string) {
		var cs c03tableCase
		_ = json.Unmarshal(data, &cs)
		msg := runTableHistory(context.Background(), cs)
		return msg != "", msg
	}
	Replayers["C03/case"] = func(data json.RawMessage) (bool, string) {
		var cs c03case
		_ = json.Unmarshal(data, &cs)
		_, msg, skipped := runC03(context.Background(), cs, 50_000_000)
		if skipped {
			return false, "reference search exceeded its budget"
		}
		return msg != "", msg
	}
}

type c03case struct {
	Root  searchRoot
	Cfg   string
	Depth int
	Seed  int64 `json:",omitempty"` // Zobrist seed of the board under test (bridge.DegenerateSeed: every position hashes to 0)
}

func (cs c03case) String() string {
	if cs.Seed == bridge.DegenerateSeed {
		return fmt.Sprintf("%s d=%d %v (every position hashing to 0)", cs.Cfg, cs.Depth, cs.Root)
	}
	return fmt.Sprintf("%s d=%d %v", cs.Cfg, cs.Depth, cs.Root)
}

// sameState compares board snapshots; a move-less root that the search adjudicated as mate or
// stalemate is still the same game state.
func sameState(before, after string, rootHasMoves bool) bool {
	if before == after {
		return true
	}
	if !rootHasMoves {
		cut := func(s string) string { return s[:strings.LastIndex(s, "|")] }
		return cut(before) == cut(after)
	}
	return false
}

func runC03(ctx context.Context, cs c03case, budget int64) (cls, msg string, skipped bool) {
	cfg := cfgByName(cs.Cfg)
	s, rcfg, reset := cfg.Make()
	b, g := newSearchBoards(cs.Root, cs.Seed)
	rootMoves := g.Cur().Legal()
	before := bridge.Snapshot(b, true)
	_, score, pv, err := s.Search(ctx, &search.Context{TT: search.NoTranspositionTable{}}, b, cs.Depth)
	if err != nil {
		return "error", "search returned an error: " + err.Error(), false
	}
	if after := bridge.Snapshot(b, true); !sameState(before, after, len(rootMoves) > 0) {
		return "board", fmt.Sprintf("the board was not handed back in the state it was received in:\n      before %s\n      after  %s", before, after), false
	}
	b2, g2 := newSearchBoards(cs.Root, 0)
	reset(ctx, b2)
	model := refsearch.New(rcfg, b2, g2, budget)
	v, merr := model.Value(ctx, cs.Depth)
	if merr != nil {
		return "", "", true
	}
	rs, ok := bridge.RefScore(score)
	if !ok {
		return "score", fmt.Sprintf("search returned the non-score %v; exhaustive minimax gives %v", score, bridge.ImplScore(v)), false
	}
	if !rs.Eq(v) {
		return "score", fmt.Sprintf("search returned %v (pv %s); exhaustive minimax over the same moves and leaves gives %v", score, bridge.MovesText(pv), bridge.ImplScore(v)), false
	}
	// principal variation
	if len(pv) > cs.Depth {
		return "pv-length", fmt.Sprintf("principal variation %s is longer than the depth %d", bridge.MovesText(pv), cs.Depth), false
	}
	g3 := g.Clone()
	for i, m := range pv {
		rm, ok := g3.Cur().FindMove(bridge.Text(m))
		if !ok || bridge.Move(rm) != m {
			return "pv-illegal", fmt.Sprintf("principal variation %s: move %d (%s) is not a legal move there", bridge.MovesText(pv), i+1, bridge.Key(m)), false
		}
		g3.Push(rm)
	}
	rootDrawn := b2.Result().Outcome == board.Draw
	if len(pv) == 0 {
		if cs.Depth > 0 && !rootDrawn && len(rootMoves) > 0 {
			// is any legal move explored at the root?
			pred := func(board.Move) bool { return true }
			if rcfg.Explore != nil {
				_, pred = rcfg.Explore(ctx, b2)
			}
			for _, rm := range rootMoves {
				im, ok := bridge.FindImpl(b2.Position(), b2.Turn(), rm.String())
				if !ok || !b2.PushMove(im) {
					continue
				}
				explored := pred(im)
				b2.PopMove()
				if explored {
					return "pv-empty", fmt.Sprintf("no principal variation although the root has explored legal moves (score %v)", score), false
				}
			}
		}
		return "", "", false
	}
	b4, g4 := newSearchBoards(cs.Root, 0)
	reset(ctx, b4)
	m4 := refsearch.New(rcfg, b4, g4, budget)
	cv, ok, cerr := m4.ChildValue(ctx, bridge.Text(pv[0]), cs.Depth)
	if cerr != nil {
		return "", "", true
	}
	if ok && !cv.Eq(v) {
		return "pv-first", fmt.Sprintf("first move %s of the principal variation is worth %v, the position %v", bridge.Text(pv[0]), bridge.ImplScore(cv), bridge.ImplScore(v)), false
	}
	return "", "", false
}

// runPonder: a search restricted to a given first move (search.Context.Ponder: "limit search to
// variation") must return minus the value of that move's child one ply shallower, with a
// variation that starts with the move, and hand the board back.
func runPonder(ctx context.Context, cs c03case, budget int64) (cls, msg string, checked int, skipped bool) {
	cfg := cfgByName(cs.Cfg)
	_, g := newSearchBoards(cs.Root, 0)
	for _, rm := range g.Cur().Legal() {
		s, rcfg, reset := cfg.Make()
		b, _ := newSearchBoards(cs.Root, 0)
		if b.Result().Outcome == board.Draw {
			return "", "", checked, false
		}
		reset(ctx, b)
		im, ok := bridge.FindImpl(b.Position(), b.Turn(), rm.String())
		if !ok {
			continue
		}
		before := bridge.Snapshot(b, true)
		_, score, pv, err := s.Search(ctx, &search.Context{TT: search.NoTranspositionTable{}, Ponder: []board.Move{im}}, b, cs.Depth)
		if err != nil {
			return "ponder-error", "search returned an error: " + err.Error(), checked, false
		}
		if after := bridge.Snapshot(b, true); !sameState(before, after, true) {
			return "ponder-board", fmt.Sprintf("pondering %s: the board was not handed back in the state it was received in", rm), checked, false
		}
		b2, g2 := newSearchBoards(cs.Root, 0)
		reset(ctx, b2)
		// (the ponder move is explored "even if not intended to be explored")
		cv, ok, cerr := refsearch.New(rcfg, b2, g2, budget).ChildValue(ctx, rm.String(), cs.Depth)
		if cerr != nil || !ok {
			skipped = true
			continue
		}
		checked++
		rs, ok := bridge.RefScore(score)
		if !ok || !rs.Eq(cv) {
			return "ponder-score", fmt.Sprintf("search limited to the variation [%s] returned %v (pv %s); that move is worth %v", rm, score, bridge.MovesText(pv), bridge.ImplScore(cv)), checked, false
		}
		if len(pv) > 0 && bridge.Text(pv[0]) != rm.String() {
			return "ponder-pv", fmt.Sprintf("search limited to the variation [%s] returned a variation starting with %s", rm, bridge.Text(pv[0])), checked, false
		}
	}
	return "", "", checked, skipped
}

// tableHistory: a game with a history, searched with a transposition table that an earlier search
// of an EARLIER position of the same game has filled (what an engine playing a game does). The table
// is keyed by position only; a position that the history makes a draw (third occurrence) must count
// as zero all the same - the draw is a property of the node, the entry a memory of another game
// state. Bounded to roots where every earlier search is itself truthful (validated on the pinned
// tree: no mismatch); the general case "table + draws inside the tree" is C11's carve-out.
type c03tableCase struct {
	Root   searchRoot
	WarmAt int // the table is filled by a search of the position after this many moves of the history
	D1, D2 int
}

func runTableHistory(ctx context.Context, cs c03tableCase) string {
	tt := search.NewTranspositionTable(ctx, 1<<16)
	s := search.AlphaBeta{Eval: search.Leaf{Eval: eval.Material{}}}
	b, _ := newSearchBoards(searchRoot{FEN: cs.Root.FEN, Moves: cs.Root.Moves[:cs.WarmAt]}, 0)
	if _, _, _, err := s.Search(ctx, &search.Context{TT: tt}, b, cs.D1); err != nil {
		return "the warming search failed: " + err.Error()
	}
	for _, mv := range cs.Root.Moves[cs.WarmAt:] {
		im, ok := bridge.FindImpl(b.Position(), b.Turn(), mv)
		if !ok || !b.PushMove(im) {
			return "harness: cannot play " + mv
		}
	}
	_, score, pv, err := s.Search(ctx, &search.Context{TT: tt}, b, cs.D2)
	if err != nil {
		return "search returned an error: " + err.Error()
	}
	b2, g2 := newSearchBoards(cs.Root, 0)
	v, merr := refsearch.New(refsearch.Config{Leaf: refsearch.Static, Eval: search.Leaf{Eval: eval.Material{}}}, b2, g2, 20_000_000).Value(ctx, cs.D2)
	if merr != nil {
		return ""
	}
	if rs, ok := bridge.RefScore(score); !ok || !rs.Eq(v) {
		return fmt.Sprintf("after a depth-%d search of the position %d moves into the game had filled the table, the depth-%d search at the end of the game returned %v (pv %s); exhaustive minimax over the game with its history gives %v", cs.D1, cs.WarmAt, cs.D2, score, bridge.MovesText(pv), bridge.ImplScore(v))
	}
	return ""
}

func tableHistoryFamily(c *harness.Check) {
	roots := []searchRoot{
		{FEN: "7k/8/8/3n4/8/8/8/3R3K w - - 0 1", Moves: []string{"h1g1", "h8g8", "g1h1", "g8h8", "h1g1", "h8g8", "g1h1"}},
		{FEN: "7k/8/8/8/8/8/8/R6K w - - 0 1", Moves: []string{"a1a2", "h8g8", "a2a1", "g8h8", "a1a2", "h8g8", "a2a1"}},
		{FEN: "7k/8/8/8/8/8/8/R6K w - - 0 1", Moves: []string{"a1a2", "h8g8", "a2a1", "g8h8", "a1a2", "h8g8"}},
		{FEN: "k7/p7/P7/8/8/7p/7P/7K w - - 0 1", Moves: []string{"h1g1", "a8b8", "g1h1", "b8a8", "h1g1", "a8b8", "g1h1"}},
	}
	var cases []c03tableCase
	for _, r := range roots {
		for d1 := 1; d1 <= 3; d1++ {
			for at := 0; at <= len(r.Moves); at++ {
				for d2 := 1; d2 <= c.Pick(3, 4); d2++ {
					cases = append(cases, c03tableCase{r, at, d1, d2})
				}
			}
		}
	}
	var cc classCap
	harness.Parallel(len(cases), func(i int) {
		c.Evaluations.Add(1)
		c.Traces.Add(1)
		if msg := runTableHistory(context.Background(), cases[i]); msg != "" {
			c.Violation(cc.sig("C03/table-history", fmt.Sprintf("%+v", cases[i])), msg+fmt.Sprintf("\n    case: %+v", cases[i]), "C03/table-history", cases[i])
		}
	})
	c.SetExtra("table_history_cases", len(cases))
}

func depthsFor(c *harness.Check, r searchRoot, cfg string) []int {
	if strings.Contains(r.Tags, "rich") {
		if cfg == "full/captures-quiescence" || cfg == "turochamp" {
			return nil // the unpruned reference quiescence is out of reach there (C11 has these roots with quiescence)
		}
		if cfg == "full/material" {
			return []int{1, 2, c.Pick(2, 3)}[:c.Pick(2, 3)]
		}
		return []int{1, 2}
	}
	net := strings.Contains(r.Tags, "net")
	max := c.Pick(3, 4)
	if net {
		max = c.Pick(5, 6)
	}
	if strings.HasPrefix(cfg, "bernstein") || cfg == "sargon" || cfg == "turochamp" {
		// selective or expensive evaluations: one ply less on wide roots
		if !net {
			max = c.Pick(2, 3)
		} else {
			max = c.Pick(4, 5)
		}
	}
	var out []int
	for d := 0; d <= max; d++ {
		out = append(out, d)
	}
	return out
}

func checkC03(c *harness.Check) {
	mustAnchors(c)
	c.Rule = "search corpus (mate/stalemate nets, small endgames, tactical fragments, roots whose history makes a repetition / the fifty-move rule / insufficient material occur inside the tree - with equal and with unequal material, and again on boards whose Zobrist table maps every position to 0 -, five capture-rich middlegames at depth <= 2-3) x depth 0..D x 7 configurations (full+static, full+captures-only quiescence, TUROCHAMP quiescence, SARGON one-ply-if-checked without under-promotions, BERNSTEIN plausible moves at limits 7/3/1); each case: full-window AlphaBeta.Search vs unpruned reference negamax/quiescence under the reference score order, PV legal + within depth + first move attains the value + non-empty when it must be, board snapshot unchanged; and searches LIMITED TO A VARIATION (Context.Ponder = each legal first move of the net and tactical roots): value = minus the reference value of that move's child, variation starts with the move. Games with a history searched with a table that an earlier search of an earlier position of the same game has filled (4 games x every point of the history x depths): a position drawn by the history counts as zero even when the table holds an entry for it. distinct_nontrivial = distinct (root, config, depth, value) with depth >= 1"
	var cases []c03case
	for _, r := range append(append([]searchRoot(nil), searchRoots...), richRoots...) {
		for _, cfg := range searchCfgs {
			for _, d := range depthsFor(c, r, cfg.Name) {
				cases = append(cases, c03case{Root: r, Cfg: cfg.Name, Depth: d})
				if len(r.Moves) > 0 {
					// a game with a history, once more on a board whose hash table maps every position to 0:
					// draws inside the tree are statements about positions, not about hashes
					cases = append(cases, c03case{Root: r, Cfg: cfg.Name, Depth: d, Seed: bridge.DegenerateSeed})
				}
			}
		}
	}
	budget := int64(c.Pick(3_000_000, 40_000_000))
	var cc classCap
	ctx := context.Background()
	harness.Parallel(len(cases), func(i int) {
		if c.Expired() {
			return
		}
		cs := cases[len(cases)-1-i] // deepest first
		bud := budget
		if strings.Contains(cs.Root.Tags, "rich") {
			bud = int64(c.Pick(200_000, 3_000_000))
		}
		st := time.Now()
		cls, msg, skipped := runC03(ctx, cs, bud)
		if d := time.Since(st); d > 20*time.Second && os.Getenv("VERIF_SLOW") != "" {
			fmt.Fprintf(os.Stderr, "slow case %v: %v\n", d, cs)
		}
		c.Evaluations.Add(1)
		c.Traces.Add(1)
		if skipped {
			c.AddExtra("cases_skipped_reference_budget", 1)
			return
		}
		c.States.Add(1)
		if msg != "" {
			c.Violation(cc.sig("C03/"+cls, cs.String()), msg+"\n    case: "+cs.String(), "C03/case", cs)
		}
		if cs.Depth >= 1 {
			c.Distinct(cs.String())
		}
	})
	// searches limited to a variation (Context.Ponder), every legal first move
	var pcases []c03case
	for _, r := range searchRoots {
		if !strings.Contains(r.Tags, "net") && !strings.Contains(r.Tags, "tactical") {
			continue
		}
		for _, cfgName := range []string{"full/material", "full/captures-quiescence", "sargon", "bernstein/3"} {
			for d := 1; d <= c.Pick(3, 4); d++ {
				pcases = append(pcases, c03case{Root: r, Cfg: cfgName, Depth: d})
			}
		}
	}
	harness.Parallel(len(pcases), func(i int) {
		if c.Expired() {
			return
		}
		cs := pcases[i]
		cls, msg, n, skipped := runPonder(ctx, cs, budget)
		c.Evaluations.Add(int64(n))
		c.AddExtra("ponder_searches_checked", int64(n))
		if skipped {
			c.AddExtra("cases_skipped_reference_budget", 1)
		}
		if msg != "" {
			c.Violation(cc.sig("C03/"+cls, cs.String()), msg+"\n    case: "+cs.String(), "C03/ponder", cs)
		}
	})
	c.Transitions.Store(int64(len(cases) + len(pcases)))
	c.Sample(map[string]any{"root": "k7/8/2K5/8/8/8/8/7R b - - 0 1", "config": "full/material", "depth": 5, "oracle": "unpruned negamax: mated in 4"})
	c.Sample(cases[len(cases)/2])
	tableHistoryFamily(c)
	c.Finish()
}

var _ = ref.Lost
