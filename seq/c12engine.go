package seq

import (
	"context"
	"encoding/json"
	"fmt"
	"time"

	"github.com/herohde/morlock/pkg/search"
	"github.com/herohde/morlock/pkg/search/searchctl"
	"github.com/seekerror/stdlib/pkg/lang"
	"verif/harness"
	"verif/ref"
)

// Halting through the ENGINE: a first analysis (depth-limited and finished, or unlimited and
// still running) is ended by Halt / Move / TakeBack / Reset; whatever the engine's game then is,
// a second analysis must start and return what a fresh engine returns for that game.

type c12engCase struct {
	FEN   string
	First string // "depth1" | "depth2" | "infinite"
	Op    string // "halt" | "move" | "takeback" | "reset"
}

func init() {
	Replayers["C12/engine"] = func(data json.RawMessage) (bool, string) {
		var cs c12engCase
		_ = json.Unmarshal(data, &cs)
		msg := runC12Engine(cs)
		return msg != "", msg
	}
}

func drain(out <-chan search.PV) (search.PV, bool) {
	var last search.PV
	deadline := time.After(60 * time.Second)
	for {
		select {
		case pv, ok := <-out:
			if !ok {
				return last, true
			}
			last = pv
		case <-deadline:
			return last, false
		}
	}
}

func depthOpt(d uint) searchctl.Options { return searchctl.Options{DepthLimit: lang.Some(d)} }

func runC12Engine(cs c12engCase) (msg string) {
	defer func() {
		if r := recover(); r != nil {
			msg = fmt.Sprintf("panic: %v", r)
		}
	}()
	ctx := context.Background()
	e := newPlainEngine(ctx)
	if err := e.Reset(ctx, cs.FEN); err != nil {
		return "reset failed: " + err.Error()
	}
	g, err := ref.GameFromFEN(cs.FEN)
	if err != nil {
		return "bad FEN"
	}
	legal := g.Cur().Legal()
	var opt searchctl.Options
	switch cs.First {
	case "depth1":
		opt = depthOpt(1)
	case "depth2":
		opt = depthOpt(2)
	default:
		opt = depthOpt(60) // practically unlimited: still running when the operation arrives
	}
	out, err := e.Analyze(ctx, opt)
	if err != nil {
		return "first analysis refused: " + err.Error()
	}
	if cs.First != "infinite" {
		if _, ok := drain(out); !ok {
			return "the depth-limited first analysis did not end"
		}
	}
	// the operation that ends it
	cur := cs.FEN
	switch cs.Op {
	case "halt":
		if _, err := e.Halt(ctx); err != nil && cs.First == "infinite" && len(legal) > 0 {
			return "Halt of a running analysis failed: " + err.Error()
		}
	case "move", "takeback":
		if len(legal) == 0 {
			return ""
		}
		if err := e.Move(ctx, legal[0].String()); err != nil {
			return "Move failed: " + err.Error()
		}
		g.Push(legal[0])
		if cs.Op == "takeback" {
			if o2, err := e.Analyze(ctx, depthOpt(60)); err == nil {
				_ = o2
			} else {
				return "analysis after the move refused: " + err.Error()
			}
			if err := e.TakeBack(ctx); err != nil {
				return "TakeBack failed: " + err.Error()
			}
			g.Pop()
		}
	case "reset":
		if err := e.Reset(ctx, cs.FEN); err != nil {
			return "Reset failed: " + err.Error()
		}
	}
	cur = g.FEN()
	if got := e.Position(); got != cur {
		return fmt.Sprintf("after %s the engine's game is %q, expected %q", cs.Op, got, cur)
	}
	// the follow-up analysis
	out2, err := e.Analyze(ctx, depthOpt(2))
	if err != nil {
		return fmt.Sprintf("the analysis started after %s of the %s analysis is refused: %v (the halted search left something behind)", cs.Op, cs.First, err)
	}
	got, ok := drain(out2)
	if !ok {
		return "the follow-up analysis did not end"
	}
	if _, err := e.Halt(ctx); err != nil && len(g.Cur().Legal()) > 0 {
		// a finished analysis can still be halted (it returns its variation)
		return "Halt after the follow-up analysis failed: " + err.Error()
	}
	f := newPlainEngine(ctx)
	if err := f.Reset(ctx, cs.FEN); err != nil {
		return "fresh reset failed"
	}
	for _, m := range g.Moves {
		if err := f.Move(ctx, m.String()); err != nil {
			return "fresh move failed"
		}
	}
	out3, err := f.Analyze(ctx, depthOpt(2))
	if err != nil {
		return "fresh analysis refused"
	}
	want, _ := drain(out3)
	if got.Score != want.Score || got.Depth != want.Depth {
		return fmt.Sprintf("the analysis after %s of the %s analysis returned depth %d score %v; a fresh engine with the same game returns depth %d score %v", cs.Op, cs.First, got.Depth, got.Score, want.Depth, want.Score)
	}
	return ""
}

func engineHaltFamily(c *harness.Check) {
	var cases []c12engCase
	for _, f := range []string{
		"7k/8/8/8/8/8/8/K7 w - - 0 1",          // K v K
		"R6k/8/6K1/8/8/8/8/8 b - - 0 1",        // checkmated: the variation of any search is empty
		"7k/5Q2/6K1/8/8/8/8/8 b - - 0 1",       // stalemated
		"k7/p7/P7/8/8/7p/7P/7K w - - 100 80",   // a draw can be claimed at the root
		"r3k2r/8/8/8/8/8/8/R3K2R w KQkq - 0 1", // something to search
	} {
		for _, first := range []string{"depth1", "depth2", "infinite"} {
			for _, op := range []string{"halt", "move", "takeback", "reset"} {
				cases = append(cases, c12engCase{f, first, op})
			}
		}
	}
	var cc classCap
	harness.Parallel(len(cases), func(i int) {
		cs := cases[i]
		c.Evaluations.Add(1)
		c.AddExtra("engine_level_halt_cases", 1)
		if msg := runC12Engine(cs); msg != "" {
			c.Violation(cc.sig("C12/engine", fmt.Sprintf("%s %s %s", cs.FEN, cs.First, cs.Op)), msg+fmt.Sprintf("\n    case: %+v", cs), "C12/engine", cs)
		}
	})
}
