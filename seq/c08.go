package seq

import (
	"encoding/json"
	"fmt"
	"strings"

	"github.com/herohde/morlock/pkg/board"
	"verif/bridge"
	"verif/corpus"
	"verif/harness"
	"verif/ref"
)

func init() {
	Replayers["C08/heavy"] = func(data json.RawMessage) (bool, string) {
		c := harness.New("C08", "quick", "seq")
		heavyUse(c)
		if c.NumViolations() > 0 {
			return true, "the long-lived-board family reports violations again"
		}
		return false, ""
	}
	Checks["C08"] = checkC08
	Replayers["C08/word"] = func(data json.RawMessage) (bool, string) {
		var d struct {
			FEN  string
			Word []string
		}
		_ = json.Unmarshal(data, &d)
		m := newMulti(d.FEN)
		for i, op := range d.Word {
			if !m.apply(op) {
				return false, fmt.Sprintf("op %d (%s) not applicable", i+1, op)
			}
			if msg := m.compare(strings.HasPrefix(op, "push ")); msg != "" {
				return true, fmt.Sprintf("after op %d (%s): %s", i+1, op, msg)
			}
		}
		return false, "all live boards agree with the model after every operation"
	}
}

// multi is the reference multi-board model next to the real boards.
type multi struct {
	zt    *board.ZobristTable
	real  []*board.Board
	model []*ref.Game
	floor []int // history length below which the board must not take back (fork points)
	cur   int
}

// newMulti sets up one board; a root may come with moves already played ("fen|m1 m2 ..."), which
// can be taken back like any others.
func newMulti(root string) *multi {
	seed := int64(0)
	if strings.HasPrefix(root, "degenerate:") {
		// a root whose boards use the zero-value Zobrist table (every position hashes to 0)
		root, seed = strings.TrimPrefix(root, "degenerate:"), bridge.DegenerateSeed
	}
	f, hist, _ := strings.Cut(root, "|")
	g, err := ref.GameFromFEN(f)
	if err != nil {
		panic(err)
	}
	m := &multi{zt: bridge.Table(seed), real: []*board.Board{bridge.NewBoard(f, seed)}, model: []*ref.Game{g}, floor: []int{1}}
	for _, t := range strings.Fields(hist) {
		if !m.apply("push " + t) {
			panic("bad pre-played history in C08 root: " + root)
		}
	}
	return m
}

// ops lists the operations applicable in the current state, simplest first.
func (m *multi) ops(filter func(g *ref.Game, mv ref.Move) bool, maxBoards int) []string {
	var out []string
	g := m.model[m.cur]
	for _, mv := range g.Cur().Legal() {
		if filter == nil || filter(g, mv) {
			out = append(out, "push "+mv.String())
		}
	}
	if g.Len() > m.floor[m.cur] {
		out = append(out, "pop")
	}
	if len(m.real) < maxBoards {
		out = append(out, "fork")
	}
	for i := range m.real {
		if i != m.cur {
			out = append(out, fmt.Sprintf("switch %d", i))
		}
	}
	return out
}

func (m *multi) apply(op string) bool {
	g, b := m.model[m.cur], m.real[m.cur]
	switch {
	case strings.HasPrefix(op, "push "):
		t := strings.TrimPrefix(op, "push ")
		rm, ok := g.Cur().FindMove(t)
		im, ok2 := bridge.FindImpl(b.Position(), b.Turn(), t)
		if !ok || !ok2 || !b.PushMove(im) {
			return false
		}
		g.Push(rm)
	case op == "pop":
		if g.Len() <= m.floor[m.cur] {
			return false
		}
		if _, ok := b.PopMove(); !ok {
			return false
		}
		g.Pop()
	case op == "fork":
		m.real = append(m.real, b.Fork())
		m.model = append(m.model, g.Clone())
		if g.Len() > m.floor[m.cur] {
			m.floor[m.cur] = g.Len()
		}
		m.floor = append(m.floor, g.Len())
	case strings.HasPrefix(op, "switch "):
		var i int
		fmt.Sscan(strings.TrimPrefix(op, "switch "), &i)
		if i < 0 || i >= len(m.real) || i == m.cur {
			return false
		}
		m.cur = i
	default:
		return false
	}
	return true
}

// modelSnapshot renders what the reference game says the getters must report.
func modelSnapshot(g *ref.Game) string {
	n := g.Len() - 1
	last, prev := "none", "none"
	if n >= 1 {
		last = bridge.Key(bridge.Move(g.Moves[n-1]))
	}
	if n >= 2 {
		prev = bridge.Key(bridge.Move(g.Moves[n-2]))
	}
	var moved [3]uint64
	for li, limit := range []int{1, 2, 1000} {
		for i := n - 1; i >= 0 && n-1-i < limit; i-- {
			moved[li] |= 1 << uint(bridge.Sq(g.Moves[i].To))
		}
		var occ uint64
		for s, v := range g.Cur().Sq {
			if v != 0 {
				occ |= 1 << uint(bridge.Sq(int8(s)))
			}
		}
		moved[li] &= occ
	}
	return fmt.Sprintf("%s|np=%d ply=%d fm=%d|castled=%v,%v|last=%s|prev=%s|moved=%x,%x,%x", g.Cur().FEN(0, 0), g.CurClock(), g.Len(), g.CurFull(),
		g.Castled[n][0], g.Castled[n][1], last, prev, moved[0], moved[1], moved[2])
}

func realSnapshot(b *board.Board) string {
	last, prev := "none", "none"
	if m, ok := b.LastMove(); ok {
		last = bridge.Key(m)
	}
	if m, ok := b.SecondToLastMove(); ok {
		prev = bridge.Key(m)
	}
	return fmt.Sprintf("%s|np=%d ply=%d fm=%d|castled=%v,%v|last=%s|prev=%s|moved=%x,%x,%x", bridge.ToRef(b.Position(), b.Turn()).FEN(0, 0), b.NoProgress(), b.Ply(), b.FullMoves(),
		b.HasCastled(board.White), b.HasCastled(board.Black), last, prev, uint64(b.HasMoved(1)), uint64(b.HasMoved(2)), uint64(b.HasMoved(1000)))
}

// compare checks every live board against its model; afterPush adds the C05 oracle on the
// current board (repetitions against the common past must be seen on both sides of a fork).
func (m *multi) compare(afterPush bool) string {
	for i, b := range m.real {
		g := m.model[i]
		if got, want := realSnapshot(b), modelSnapshot(g); got != want {
			return fmt.Sprintf("board %d reports\n      %s\n    model says\n      %s", i, got, want)
		}
		if b.Hash() != m.zt.Hash(b.Position(), b.Turn()) {
			return fmt.Sprintf("board %d: hash differs from the hash of its position", i)
		}
		if !g.AnyEvent() && b.Result().Outcome == board.Draw {
			return fmt.Sprintf("board %d reports a draw (%v) but its history contains no draw condition", i, b.Result().Reason)
		}
		if !g.AnyEvent() && b.Result().IsTerminal() {
			return fmt.Sprintf("board %d reports terminal result %v", i, b.Result())
		}
	}
	if afterPush {
		if cls, msg := c05Oracle(m.real[m.cur], m.model[m.cur]); msg != "" && cls != "adjudication" {
			return fmt.Sprintf("board %d after push: %s", m.cur, msg)
		}
	}
	return ""
}

type c08root struct {
	fen    string
	filter func(g *ref.Game, mv ref.Move) bool
	what   string
}

func among(texts ...string) func(g *ref.Game, mv ref.Move) bool {
	set := map[string]bool{}
	for _, t := range texts {
		set[t] = true
	}
	return func(g *ref.Game, mv ref.Move) bool { return set[mv.String()] }
}

func checkC08(c *harness.Check) {
	mustAnchors(c)
	depth := c.Pick(8, 10)
	c.Rule = fmt.Sprintf("all operation words of length <= %d over {push m (root-specific alphabet of <=4 moves incl. castling, e.p., promotion, captures, shuffles; roots incl. two set up with full-move number 0 and one whose boards use the zero-value Zobrist table under which every position hashes to 0), pop (never below a fork point), fork (<=3 live boards), switch i}; every word is replayed on fresh real boards and after its last operation EVERY live board's getters (position, side, clock, ply, full moves, has-castled x2, last and second-to-last move, HasMoved(1/2/all), hash vs scratch, not-drawn result) are compared with the reference multi-board model; after a push the draw oracle of C05 runs on that board. A long-lived board: after a complete 4-ply walk from the start position (about 200 000 pushes and pops, over 70 000 distinct positions; and from a middlegame root: 4 million pushes, over 1.4 million distinct positions) on the board itself / on a fork of it, everything reported is unchanged and the knight shuffle played before the walk, repeated after it, is reported as a three-fold repetition. The forks an engine hands out (Engine.Board) on seven games incl. drawn ones: moves, take-backs and adjudication on them leave the engine's game untouched and vice versa. distinct_nontrivial = distinct canonical states (sorted model snapshots of all live boards)", depth)
	roots := []c08root{
		{"k7/p7/P7/8/8/7p/7P/7K w - - 0 1", among("h1g1", "g1h1", "a8b8", "b8a8"), "shuffle: repetition across forks"},
		{"r3k2r/8/8/8/8/8/8/R3K2R w KQkq - 0 1", among("e1g1", "e1c1", "e8g8", "e8c8", "h1g1", "a8b8", "g1h1", "b8a8"), "castling flags"},
		{"rnbqkbnr/ppp1pppp/8/8/3pP3/8/PPPP1PPP/RNBQKBNR b KQkq e3 0 3", among("d4e3", "g8f6", "f6g8", "g1f3", "f3g1", "d2e3", "f2e3"), "e.p. and captures"},
		{"1n2k3/P7/8/8/8/8/7p/4K1N1 w - - 0 1", among("a7a8q", "a7b8n", "h2h1r", "h2g1b", "e1e2", "e8e7"), "promotions"},
		{"k7/p7/P7/8/8/7p/7P/7K w - - 98 40", among("h1g1", "g1h1", "a8b8", "b8a8"), "clock at the limit"},
		{"k7/p3p3/P7/8/8/7p/4P2P/7K w - - 0 1|h1g1 a8b8 g1h1 b8a8 h1g1 a8b8 g1h1", among("h1g1", "g1h1", "a8b8", "b8a8", "e7e6", "e2e3"), "pre-played shuffle (position seen twice) + free pawns: irreversible move, take-back, repetition"},
		{"k7/p7/P7/8/8/7p/7P/7K b - - 0 0", among("h1g1", "g1h1", "a8b8", "b8a8"), "full-move number 0 at set-up (the decoder accepts it), Black first: the counter passes 0 -> 1 and back"},
		{"1k6/p7/P7/8/8/7p/7P/7K w - - 7 0", among("h1g1", "g1h1", "b8a8", "a8b8"), "full-move number 0 at set-up, White first"},
		{"degenerate:k7/p7/P7/8/8/7p/7P/7K w - - 0 1", among("h1g1", "g1h1", "a8b8", "b8a8"), "shuffle across forks on boards whose hash table maps every position to 0: repetitions are about positions"},
		{"k7/p3p3/P7/8/8/7p/4P2P/7K w - - 0 1|h1g1 a8b8 g1h1 b8a8", among("h1g1", "g1h1", "a8b8", "b8a8", "e7e6", "e2e3", "e2e4"), "pre-played shuffle + free pawns"},
	}
	if c.Thorough() {
		roots = append(roots, c08root{"r3k2r/8/8/8/8/8/8/R3K2R b KQkq - 4 9", among("e1g1", "e1c1", "e8g8", "e8c8", "h8g8", "a1b1", "g8h8", "b1a1"), "castling flags, Black first"})
	}
	var cc classCap
	type job struct {
		root c08root
		word []string
	}
	// split on the first two operations for parallelism
	var jobs []job
	for _, r := range roots {
		m0 := newMulti(r.fen)
		for _, op1 := range m0.ops(r.filter, 3) {
			m1 := newMulti(r.fen)
			m1.apply(op1)
			for _, op2 := range m1.ops(r.filter, 3) {
				jobs = append(jobs, job{r, []string{op1, op2}})
			}
			jobs = append(jobs, job{r, []string{op1}})
		}
	}
	check := func(r c08root, word []string) []string {
		m := newMulti(r.fen)
		for _, op := range word {
			if !m.apply(op) {
				c.Violation(cc.sig("C08/inapplicable", r.fen+" "+strings.Join(word, ";")), "operation "+op+" was refused by the real board", "C08/word", map[string]any{"FEN": r.fen, "Word": word})
				return nil
			}
		}
		c.Transitions.Add(int64(len(word)))
		c.Traces.Add(1)
		c.Evaluations.Add(int64(len(m.real)))
		if msg := m.compare(strings.HasPrefix(word[len(word)-1], "push ")); msg != "" {
			cls := "C08/" + word[len(word)-1][:3]
			c.Violation(cc.sig(cls, r.fen+" "+strings.Join(word, ";")), msg+"\n    word: "+strings.Join(word, "; ")+" from "+r.fen, "C08/word", map[string]any{"FEN": r.fen, "Word": word})
		}
		var snaps []string
		for _, g := range m.model {
			snaps = append(snaps, modelSnapshot(g))
		}
		c.States.Add(1)
		if len(m.real) > 1 {
			if len(word) == depth && len(m.real) == 3 && word[len(word)-1] == "pop" {
				c.Sample(map[string]any{"root": r.fen, "word": word})
			}
			sortStrings(snaps)
			c.Distinct(strings.Join(snaps, "#"))
		}
		return m.ops(r.filter, 3)
	}
	harness.Parallel(len(jobs), func(i int) {
		j := jobs[i]
		var rec func(word []string)
		rec = func(word []string) {
			if c.Expired() {
				return
			}
			next := check(j.root, word)
			if len(word) >= depth {
				return
			}
			for _, op := range next {
				rec(append(append([]string(nil), word...), op))
			}
		}
		if len(j.word) == 1 {
			check(j.root, j.word)
			return
		}
		rec(j.word)
	})
	engineForks(c)
	heavyUse(c)
	c.Finish()
}

// heavyUse: a board is long-lived - a search plays and takes back hundreds of thousands of moves on
// it (or on a fork of it) between two moves of the game. A board that has been through a complete
// 4-ply walk (some 200 000 pushes and pops, over 70 000 distinct positions) must report exactly what
// it reported before, and the game must go on as on a board that never saw the walk: the knight
// shuffle played before the walk is repeated after it and the third occurrence must be reported.
func heavyUse(c *harness.Check) {
	heavyUseFrom(c, corpus.Initial, []string{"g1f3", "g8f6", "f3g1", "f6g8"}, false)
	// a middlegame root: the same walk visits over 1.4 million distinct positions (4 million pushes) -
	// past any round number a "this table has grown too large" guard might pick
	heavyUseFrom(c, corpus.Kiwipete, []string{"c3b1", "b6c8", "b1c3", "c8b6"}, true)
}

func heavyUseFrom(c *harness.Check, root string, shuffle []string, boardOnly bool) {
	for _, onFork := range []bool{false, true} {
		if boardOnly && onFork {
			continue
		}
		what := map[bool]string{false: "on the board itself", true: "on a fork of it"}[onFork]
		if root != corpus.Initial {
			what += " (middlegame root)"
		}
		b := bridge.NewBoard(root, 0)
		g, _ := ref.GameFromFEN(root)
		play := func(bb *board.Board, t string) bool {
			m, ok := bridge.FindImpl(bb.Position(), bb.Turn(), t)
			return ok && bb.PushMove(m)
		}
		for _, t := range shuffle {
			rm, _ := g.Cur().FindMove(t)
			if !play(b, t) {
				c.Violation("C08/heavy-use setup", "cannot play "+t, "C08/heavy", nil)
				return
			}
			g.Push(rm)
		}
		before := bridge.Snapshot(b, true)
		w := b
		if onFork {
			w = b.Fork()
		}
		var pushes int64
		var walk func(d int)
		walk = func(d int) {
			if d == 0 {
				return
			}
			for _, m := range w.Position().PseudoLegalMoves(w.Turn()) {
				if w.PushMove(m) {
					pushes++
					walk(d - 1)
					w.PopMove()
				}
			}
		}
		walk(4)
		c.Transitions.Add(2 * pushes)
		c.Evaluations.Add(1)
		c.SetExtra("heavy_use_pushes_per_walk", pushes)
		if after := bridge.Snapshot(b, true); after != before {
			c.Violation("C08/heavy-use "+what, fmt.Sprintf("after a complete 4-ply walk %s (every move taken back) the board reports\n      %s\n    before the walk it reported\n      %s", what, after, before), "C08/heavy", nil)
			continue
		}
		if onFork {
			if after := bridge.Snapshot(w, true); after != before {
				c.Violation("C08/heavy-use fork", fmt.Sprintf("after a complete 4-ply walk on it (every move taken back) the fork reports\n      %s\n    the original\n      %s", after, before), "C08/heavy", nil)
				continue
			}
		}
		// the game goes on, on the original and on the fork that was walked
		boards := []*board.Board{b}
		if onFork {
			boards = append(boards, w)
		}
		for bi, bb := range boards {
			gg := g.Clone()
			for i, t := range shuffle {
				rm, _ := gg.Cur().FindMove(t)
				if !play(bb, t) {
					c.Violation("C08/heavy-use "+what, fmt.Sprintf("after the walk %s the move %s is refused", what, t), "C08/heavy", nil)
					break
				}
				gg.Push(rm)
				if cls, msg := c05Oracle(bb, gg); msg != "" {
					c.Violation("C08/heavy-use "+cls+" "+what, fmt.Sprintf("the game goes on after a complete 4-ply walk %s (board %d of %d, move %d of the repeated shuffle): %s", what, bi+1, len(boards), i+1, msg), "C08/heavy", nil)
					break
				}
			}
		}
	}
}

func sortStrings(s []string) {
	for i := 1; i < len(s); i++ {
		for j := i; j > 0 && s[j] < s[j-1]; j-- {
			s[j], s[j-1] = s[j-1], s[j]
		}
	}
}
