package seq

import (
	"encoding/json"
	"fmt"
	"sort"

	"github.com/herohde/morlock/pkg/board"
	"github.com/herohde/morlock/pkg/eval"
	"verif/bridge"
	"verif/corpus"
	"verif/harness"
	"verif/ref"
)

func init() {
	Checks["C06"] = checkC06
	Replayers["C06/table"] = func(data json.RawMessage) (bool, string) {
		var d struct {
			Piece string
			Sq    int
			Occ   uint64
		}
		_ = json.Unmarshal(data, &d)
		pc := map[string]board.Piece{"R": board.Rook, "B": board.Bishop, "Q": board.Queen, "N": board.Knight, "K": board.King}[d.Piece]
		got := board.Attackboard(board.NewRotatedBitboard(board.Bitboard(d.Occ)), board.Square(d.Sq), pc)
		want := rayAttacks(pc, d.Sq, d.Occ)
		return uint64(got) != want, fmt.Sprintf("attack set %x, ray walk %x", uint64(got), want)
	}
	Replayers["C06/derived"] = func(data json.RawMessage) (bool, string) {
		var f string
		_ = json.Unmarshal(data, &f)
		rp, _, _, err := ref.ParseFEN(f)
		if err != nil {
			return false, "bad FEN"
		}
		msg := derivedQueries(refNode(rp))
		return msg != "", msg
	}
}

// rayAttacks is the geometric definition in morlock's square numbering (rank = sq>>3,
// column = sq&7; the definition is symmetric under the file mirror so the direction of the
// column numbering does not matter).
func rayAttacks(pc board.Piece, sq int, occ uint64) uint64 {
	r, f := sq>>3, sq&7
	var out uint64
	step := func(dirs [][2]int, slide bool) {
		for _, d := range dirs {
			for x, y := f+d[0], r+d[1]; x >= 0 && x < 8 && y >= 0 && y < 8; x, y = x+d[0], y+d[1] {
				out |= 1 << uint(y*8+x)
				if !slide || occ&(1<<uint(y*8+x)) != 0 {
					break
				}
			}
		}
	}
	straight := [][2]int{{1, 0}, {-1, 0}, {0, 1}, {0, -1}}
	diag := [][2]int{{1, 1}, {1, -1}, {-1, 1}, {-1, -1}}
	switch pc {
	case board.Rook:
		step(straight, true)
	case board.Bishop:
		step(diag, true)
	case board.Queen:
		step(straight, true)
		step(diag, true)
	case board.King:
		step(straight, false)
		step(diag, false)
	case board.Knight:
		step([][2]int{{1, 2}, {2, 1}, {2, -1}, {1, -2}, {-1, -2}, {-2, -1}, {-2, 1}, {-1, 2}}, false)
	}
	return out
}

func lineSquares(sq int, dirs [][2]int) []int {
	r, f := sq>>3, sq&7
	var out []int
	for _, d := range dirs {
		for x, y := f+d[0], r+d[1]; x >= 0 && x < 8 && y >= 0 && y < 8; x, y = x+d[0], y+d[1] {
			out = append(out, y*8+x)
		}
	}
	return out
}

func tableCheck(c *harness.Check, pc board.Piece, name string, sq int, occ uint64) {
	c.Evaluations.Add(1)
	got := board.Attackboard(board.NewRotatedBitboard(board.Bitboard(occ)), board.Square(sq), pc)
	if want := rayAttacks(pc, sq, occ); uint64(got) != want {
		c.Violation(fmt.Sprintf("C06/table %s@%v occ=%x", name, board.Square(sq), occ), fmt.Sprintf("%s on %v with occupancy %x attacks %x, ray walk says %x", name, board.Square(sq), occ, uint64(got), want),
			"C06/table", map[string]any{"Piece": name, "Sq": sq, "Occ": occ})
	}
}

var attackLists = [][]board.Piece{
	{board.Pawn}, {board.Knight}, {board.Bishop}, {board.Rook}, {board.Queen}, {board.King}, {},
	board.AllPieces, board.KingQueen, board.KingQueenRookKnightBishop, board.QueenRookBishop, board.QueenRookKnightBishop, board.QueenRookKnightBishopPawn,
	{board.Rook, board.Bishop}, {board.Pawn, board.Queen}, {board.Queen, board.Queen},
}

// derivedQueries is the oracle for the position-level queries at one node.
func derivedQueries(n *Node) string {
	pos, rp := n.Pos, n.Ref
	for _, c := range []board.Color{board.White, board.Black} {
		white := c == board.White
		for s := 0; s < 64; s++ {
			sq := bridge.Sq(int8(s))
			att := rp.Attackers(s, white) // pieces of colour c attacking s
			if got := pos.IsAttacked(c.Opponent(), sq); got != (len(att) > 0) {
				return fmt.Sprintf("IsAttacked(%v,%v)=%v but attackers of colour %v: %v", c.Opponent(), sq, got, c, att)
			}
			if got := pos.IsDefended(c, sq); got != (len(att) > 0) {
				return fmt.Sprintf("IsDefended(%v,%v)=%v but attackers of colour %v: %v", c, sq, got, c, att)
			}
			// the same question restricted to kinds of pieces: every single kind, the lists the package
			// exports, the empty list - the answer is "one of the attackers is of a listed kind"
			var kinds [7]bool
			for _, a := range att {
				k := rp.Sq[a]
				if k < 0 {
					k = -k
				}
				kinds[k] = true
			}
			for _, list := range attackLists {
				want := false
				for _, pc := range list {
					if kinds[bridge.RefPiece(pc)] {
						want = true
					}
				}
				if got := pos.IsAttackedBy(c.Opponent(), sq, list); got != want {
					return fmt.Sprintf("IsAttackedBy(%v,%v,%v)=%v but the attackers of colour %v are on %v", c.Opponent(), sq, list, got, c, att)
				}
				if got := pos.IsDefendedBy(c, sq, list); got != want {
					return fmt.Sprintf("IsDefendedBy(%v,%v,%v)=%v but the attackers of colour %v are on %v", c, sq, list, got, c, att)
				}
			}
			fc := eval.FindCapture(pos, c, sq)
			var gotSq, wantSq []int
			for _, pl := range fc {
				gotSq = append(gotSq, int(bridge.RefSq(pl.Square)))
				if cc, pp, ok := pos.Square(pl.Square); !ok || cc != c || pp != pl.Piece || pl.Color != c {
					return fmt.Sprintf("FindCapture(%v,%v) reports %v which is not on the board", c, sq, pl)
				}
			}
			wantSq = append(wantSq, att...)
			sort.Ints(gotSq)
			sort.Ints(wantSq)
			if fmt.Sprint(gotSq) != fmt.Sprint(wantSq) {
				return fmt.Sprintf("FindCapture(%v,%v) from squares %v, definition says %v", c, sq, gotSq, wantSq)
			}
		}
		if k := rp.KingSq(white); k >= 0 {
			inCheck := rp.Attacked(k, !white)
			if pos.IsChecked(c) != inCheck {
				return fmt.Sprintf("IsChecked(%v)=%v", c, pos.IsChecked(c))
			}
			// checkmate for colour c: in check and no legal move with c to move
			q := *rp
			if q.White != white {
				q.White = white
				q.EP = -1
			}
			mate := inCheck && len(q.Legal()) == 0
			if !(q.White != rp.White && rp.InCheck(rp.White)) { // both kings in check is not a chess position
				if got := pos.IsCheckMate(c); got != mate {
					return fmt.Sprintf("IsCheckMate(%v)=%v, definition says %v", c, got, mate)
				}
			}
		}
		for _, target := range []board.Piece{board.King, board.Queen} {
			var want []ref.Pin
			for s := 0; s < 64; s++ {
				v := rp.Sq[s]
				if (white && v == bridge.RefPiece(target)) || (!white && v == -bridge.RefPiece(target)) {
					want = append(want, rp.PinsOn(s)...)
				}
			}
			var got []ref.Pin
			for _, p := range eval.FindPins(pos, c, target) {
				got = append(got, ref.Pin{Attacker: int(bridge.RefSq(p.Attacker)), Pinned: int(bridge.RefSq(p.Pinned)), Target: int(bridge.RefSq(p.Target))})
			}
			key := func(l []ref.Pin) string {
				sort.Slice(l, func(i, j int) bool {
					if l[i].Target != l[j].Target {
						return l[i].Target < l[j].Target
					}
					return l[i].Pinned < l[j].Pinned
				})
				return fmt.Sprint(l)
			}
			if key(got) != key(want) {
				return fmt.Sprintf("FindPins(%v,%v)=%v, definition says %v (squares a1=0..h8=63 as {attacker pinned target})", c, target, got, want)
			}
		}
	}
	return ""
}

func checkC06(c *harness.Check) {
	c.Rule = "complete table enumeration: for each of 64 squares every occupancy subset of its rank+file (rook), of its two diagonals (bishop), both halves separately and 2^12 joint subsets nearest the square (queen), own square occupied and empty; every single off-line occupied square added to the empty and the full subset (quick) / to every subset (thorough) to expose cross-talk of a wrong rotation entry; king/knight for all squares; pawn capture/move boards for every single pawn and both colours; derived queries (IsAttacked/IsDefended, IsAttackedBy/IsDefendedBy for every single kind of piece, the exported lists and odd lists, IsChecked/IsCheckMate/FindCapture/FindPins K+Q) vs definitions on every node of BFS closures and families incl. the back-rank-check family K+Q/K+R v K with the lone king on the edge (where the mates are), and a two-queens family (two queens of one colour, an enemy rook or bishop on every square, an own knight and pawn on every pair of squares: several targets for one pin query). distinct_nontrivial = distinct (piece, square, attack set) triples"
	straight := [][2]int{{1, 0}, {-1, 0}, {0, 1}, {0, -1}}
	diag := [][2]int{{1, 1}, {1, -1}, {-1, 1}, {-1, -1}}
	type job struct {
		pc   board.Piece
		name string
		sq   int
	}
	var jobs []job
	for sq := 0; sq < 64; sq++ {
		jobs = append(jobs, job{board.Rook, "R", sq}, job{board.Bishop, "B", sq}, job{board.Queen, "Q", sq})
	}
	cross := c.Thorough()
	harness.Parallel(len(jobs), func(i int) {
		j := jobs[i]
		var line []int
		switch j.pc {
		case board.Rook:
			line = lineSquares(j.sq, straight)
		case board.Bishop:
			line = lineSquares(j.sq, diag)
		case board.Queen:
			line = append(lineSquares(j.sq, straight), lineSquares(j.sq, diag)...)
		}
		onLine := uint64(1) << uint(j.sq)
		for _, s := range line {
			onLine |= 1 << uint(s)
		}
		distinct := map[uint64]bool{}
		enumerate := func(sqs []int) {
			for sub := uint64(0); sub < 1<<uint(len(sqs)); sub++ {
				var occ uint64
				for b, s := range sqs {
					if sub&(1<<uint(b)) != 0 {
						occ |= 1 << uint(s)
					}
				}
				for _, self := range []uint64{0, 1 << uint(j.sq)} {
					tableCheck(c, j.pc, j.name, j.sq, occ|self)
					c.States.Add(1)
					distinct[rayAttacks(j.pc, j.sq, occ)] = true
					if cross || sub == 0 || sub == 1<<uint(len(sqs))-1 {
						for off := 0; off < 64; off++ {
							if onLine&(1<<uint(off)) == 0 {
								tableCheck(c, j.pc, j.name, j.sq, occ|self|1<<uint(off))
							}
						}
					}
				}
			}
		}
		if j.pc == board.Queen {
			// both halves completely (the other half empty and the other half full), then the joint
			// subsets of the (up to) 12 squares nearest to the queen
			st, dg := lineSquares(j.sq, straight), lineSquares(j.sq, diag)
			enumerate(st)
			enumerate(dg)
			near := append([]int{}, line...)
			sort.Slice(near, func(a, b int) bool {
				da := abs(near[a]>>3-j.sq>>3) + abs(near[a]&7-j.sq&7)
				db := abs(near[b]>>3-j.sq>>3) + abs(near[b]&7-j.sq&7)
				return da < db
			})
			if len(near) > 12 {
				near = near[:12]
			}
			enumerate(near)
		} else {
			enumerate(line)
		}
		for k := range distinct {
			c.Distinct(fmt.Sprint(j.name, j.sq, k))
		}
		c.Transitions.Add(int64(len(distinct)))
	})
	c.Sample(map[string]any{"piece": "R", "square": "e4", "occupancy_bits": "every subset of the 14 other squares of rank 4 and file e", "oracle": "ray walk stopping at and including the first occupied square"})
	for sq := 0; sq < 64; sq++ {
		for _, occ := range []uint64{0, ^uint64(0), 0x00ff00ff00ff00ff} {
			tableCheck(c, board.King, "K", sq, occ)
			tableCheck(c, board.Knight, "N", sq, occ)
		}
		if got, want := uint64(board.KingAttackboard(board.Square(sq))), rayAttacks(board.King, sq, 0); got != want {
			c.Violation(fmt.Sprintf("C06/king %d", sq), "KingAttackboard differs from definition", "C06/table", map[string]any{"Piece": "K", "Sq": sq, "Occ": 0})
		}
		if got, want := uint64(board.KnightAttackboard(board.Square(sq))), rayAttacks(board.Knight, sq, 0); got != want {
			c.Violation(fmt.Sprintf("C06/knight %d", sq), "KnightAttackboard differs from definition", "C06/table", map[string]any{"Piece": "N", "Sq": sq, "Occ": 0})
		}
		// pawns: single pawn on every square, both colours
		for _, col := range []board.Color{board.White, board.Black} {
			r, f := sq>>3, sq&7
			dr := 1
			if col == board.Black {
				dr = -1
			}
			var wantCap, wantMove uint64
			for _, df := range []int{-1, 1} {
				if x, y := f+df, r+dr; x >= 0 && x < 8 && y >= 0 && y < 8 {
					wantCap |= 1 << uint(y*8+x)
				}
			}
			if y := r + dr; y >= 0 && y < 8 {
				wantMove = 1 << uint(y*8+f)
			}
			c.Evaluations.Add(2)
			if got := uint64(board.PawnCaptureboard(col, board.BitMask(board.Square(sq)))); got != wantCap {
				c.Violation(fmt.Sprintf("C06/pawncap %v %d", col, sq), fmt.Sprintf("pawn capture board %x want %x", got, wantCap), "C06/note", sq)
			}
			if got := uint64(board.PawnMoveboard(0, col, board.BitMask(board.Square(sq)))); got != wantMove {
				c.Violation(fmt.Sprintf("C06/pawnmove %v %d", col, sq), fmt.Sprintf("pawn move board %x want %x", got, wantMove), "C06/note", sq)
			}
			if got := uint64(board.PawnMoveboard(board.Bitboard(wantMove), col, board.BitMask(board.Square(sq)))); got != 0 {
				c.Violation(fmt.Sprintf("C06/pawnblocked %v %d", col, sq), "blocked pawn can move", "C06/note", sq)
			}
		}
	}

	visit := func(n *Node) {
		c.Evaluations.Add(1)
		c.Traces.Add(1)
		if msg := derivedQueries(n); msg != "" {
			c.Violation("C06/derived "+n.Ref.FEN(0, 1), msg+" at "+n.Where(), "C06/derived", n.Ref.FEN(0, 1))
		}
	}
	Walk(c, seedNodes(corpus.Tagged("big")), c.Pick(1, 2), visit, nil)
	Walk(c, seedNodes(corpus.NotTagged("big")), c.Pick(2, 3), visit, nil)
	WalkFlat(c, corpus.PinFamily, visit, nil)
	WalkFlat(c, corpus.CastlingUnderAttack, visit, nil)
	WalkFlat(c, corpus.BackRankFamily, visit, nil) // many checkmates whose only 'flight' is the x-rayed square behind the king
	WalkFlat(c, func(e func(*ref.Pos)) { corpus.KXvKHeavy(c.Thorough(), e) }, visit, nil)
	WalkFlat(c, func(e func(*ref.Pos)) { corpus.TwoQueensFamily(c.Thorough(), e) }, visit, nil) // several targets of one kind for the pin query
	if c.Thorough() {
		WalkFlat(c, corpus.KXvK, visit, nil)
	}
	c.Sample(map[string]any{"derived_queries_on": "k7/8/8/8/8/2q5/3B4/4K3 w - - 0 1", "expected_pin": "{attacker c3, pinned d2, target e1}"})
	c.Finish()
}

func abs(x int) int {
	if x < 0 {
		return -x
	}
	return x
}
