package seq

import (
	"context"
	"encoding/json"
	"fmt"
	"github.com/herohde/morlock/cmd/sargon/sargon"
	"strings"
	"sync"

	"github.com/herohde/morlock/pkg/board"
	"github.com/herohde/morlock/pkg/eval"
	"github.com/herohde/morlock/pkg/search"
	"verif/bridge"
	"verif/harness"
	"verif/ref"
	"verif/refsearch"
)

func init() {
	Checks["C11"] = checkC11
	Replayers["C11/case"] = func(data json.RawMessage) (bool, string) {
		var cs c11case
		_ = json.Unmarshal(data, &cs)
		res := runC11(context.Background(), cs, newValueMemo(50_000_000))
		if len(res.problems) > 0 {
			return true, res.problems[0].msg
		}
		return false, fmt.Sprintf("%d searches, %d exact entries validated", res.searches, res.exactChecked)
	}
}

// recTT records every store made through it.
type ttWrite struct {
	Hash     board.ZobristHash
	Bound    search.Bound
	Depth    int
	Score    eval.Score
	Accepted bool
}

type recTT struct {
	inner  search.TranspositionTable
	writes []ttWrite
}

func (t *recTT) Read(h board.ZobristHash) (search.Bound, int, eval.Score, board.Move, bool) {
	return t.inner.Read(h)
}
func (t *recTT) Write(h board.ZobristHash, bound search.Bound, ply, depth int, score eval.Score, move board.Move) bool {
	ok := t.inner.Write(h, bound, ply, depth, score, move)
	t.writes = append(t.writes, ttWrite{h, bound, depth, score, ok})
	return ok
}
func (t *recTT) Size() uint64  { return t.inner.Size() }
func (t *recTT) Used() float64 { return t.inner.Used() }

// posRec remembers which position each hash belongs to; the search tells us through the
// Exploration and QuietSearch seams, which are called with the board at every node.
type posRec struct {
	byHash   map[board.ZobristHash]string
	children map[board.ZobristHash]string
	expanded map[string]bool
}

func (r *posRec) note(b *board.Board) {
	if _, ok := r.byHash[b.Hash()]; !ok {
		r.byHash[b.Hash()] = bridge.ToRef(b.Position(), b.Turn()).FEN(0, 1)
	}
}

// childOf looks the hash up among the positions one move away from the recorded ones.
func (r *posRec) childOf(h board.ZobristHash) (string, bool) {
	if r.children == nil {
		r.children = map[board.ZobristHash]string{}
	}
	if f, ok := r.children[h]; ok {
		return f, true
	}
	for _, f := range r.byHash {
		if r.expanded[f] {
			continue
		}
		if r.expanded == nil {
			r.expanded = map[string]bool{}
		}
		r.expanded[f] = true
		b := bridge.NewBoard(f, 0)
		for _, m := range b.Position().LegalMoves(b.Turn()) {
			if b.PushMove(m) {
				r.children[b.Hash()] = bridge.ToRef(b.Position(), b.Turn()).FEN(0, 1)
				b.PopMove()
			}
		}
	}
	f, ok := r.children[h]
	return f, ok
}

type recQuiet struct {
	inner search.QuietSearch
	rec   *posRec
}

func (q recQuiet) QuietSearch(ctx context.Context, sctx *search.Context, b *board.Board) (uint64, eval.Score) {
	q.rec.note(b)
	return q.inner.QuietSearch(ctx, sctx, b)
}

func recExplore(rec *posRec) search.Exploration {
	return func(ctx context.Context, b *board.Board) (board.MovePriorityFn, board.MovePredicateFn) {
		rec.note(b)
		return search.FullExploration(ctx, b)
	}
}

// ttSearch builds the position-determined search of the given kind with recording seams.
func ttSearch(kind string, rec *posRec) (search.AlphaBeta, refsearch.Config) {
	leaf := search.Leaf{Eval: eval.Material{}}
	switch kind {
	case "static":
		return search.AlphaBeta{Explore: recExplore(rec), Eval: recQuiet{leaf, rec}}, refsearch.Config{Leaf: refsearch.Static, Eval: leaf}
	case "onecheck": // SARGON's plumbing over a position-determined leaf: no under-promotions, one more full-width ply when in check
		return search.AlphaBeta{Explore: func(ctx context.Context, b *board.Board) (board.MovePriorityFn, board.MovePredicateFn) {
				rec.note(b)
				return sargon.SkipUnderPromotions(ctx, b)
			}, Eval: recQuiet{sargon.OnePlyIfChecked{Leaf: leaf}, rec}},
			refsearch.Config{Explore: sargon.SkipUnderPromotions, Leaf: refsearch.OneIfCheck, Eval: leaf}
	case "quiescence":
		return search.AlphaBeta{Explore: recExplore(rec), Eval: recQuiet{search.Quiescence{Explore: capturesOnly, Eval: leaf}, rec}},
			refsearch.Config{Leaf: refsearch.Quiesce, QExplore: capturesOnly, QPredPure: true, Eval: leaf, QMemo: &quietMemo}
	}
	panic(kind)
}

// quietMemo: captures-only quiescence values over material are a function of the position.
var quietMemo sync.Map

// valueMemo caches reference values of (position, depth, kind) computed on fresh games.
type valueMemo struct {
	mu     sync.Mutex
	m      map[string]ref.Score
	budget int64
	impl   bool // values come from the implementation's own table-free search
}

func newValueMemo(budget int64) *valueMemo {
	return &valueMemo{m: map[string]ref.Score{}, budget: budget}
}

func (vm *valueMemo) value(ctx context.Context, kind, fen string, depth int) (ref.Score, bool) {
	key := fmt.Sprintf("%s|%s|%d", kind, fen, depth)
	vm.mu.Lock()
	v, ok := vm.m[key]
	vm.mu.Unlock()
	if ok {
		return v, true
	}
	s0, rcfg := ttSearch(kind, &posRec{byHash: map[board.ZobristHash]string{}})
	b := bridge.NewBoard(fen, 0)
	if vm.impl {
		// capture-rich positions, where exhaustive minimax is out of reach: the "true search value"
		// is what the search itself returns without a table (C03 ties that to minimax elsewhere)
		var sc eval.Score
		if depth == 0 {
			_, sc = s0.Eval.QuietSearch(ctx, &search.Context{TT: search.NoTranspositionTable{}}, b)
		} else {
			var err error
			if _, sc, _, err = s0.Search(ctx, &search.Context{TT: search.NoTranspositionTable{}}, b, depth); err != nil {
				return ref.Score{}, false
			}
		}
		rs, ok := bridge.RefScore(sc)
		if !ok {
			return ref.Score{}, false
		}
		vm.mu.Lock()
		vm.m[key] = rs
		vm.mu.Unlock()
		return rs, true
	}
	g, _ := ref.GameFromFEN(fen)
	v, err := refsearch.New(rcfg, b, g, vm.budget).Value(ctx, depth)
	if err != nil {
		return ref.Score{}, false
	}
	vm.mu.Lock()
	vm.m[key] = v
	vm.mu.Unlock()
	return v, true
}

type c11case struct {
	Root  searchRoot
	Kind  string // static | quiescence
	Size  uint64 // table size in bytes
	Depth int
	Seq   string   // deepen | repeat | game | gamedeepen | twoids
	Line  []string `json:",omitempty"` // twoids: the game moves played between the two runs of iterative deepening
	Min   int      `json:",omitempty"` // > 0: the table is search.NewMinDepthTranspositionTable(Min), as cmd/morlock builds it
}

func (cs c11case) String() string {
	if cs.Min > 0 {
		c := cs
		c.Min = 0
		return fmt.Sprintf("mindepth=%d %s", cs.Min, c.String())
	}
	if len(cs.Line) > 0 {
		return fmt.Sprintf("%s size=%d %s d=%d %v then %v", cs.Kind, cs.Size, cs.Seq, cs.Depth, cs.Root, cs.Line)
	}
	return fmt.Sprintf("%s size=%d %s d=%d %v", cs.Kind, cs.Size, cs.Seq, cs.Depth, cs.Root)
}

type c11problem struct{ cls, msg string }

type c11result struct {
	problems     []c11problem
	searches     int
	exactChecked int
	exactWrong   int
	skipped      int
	excluded     int // searches in whose tree a history draw can arise (outside the property)
}

// runC11 plays one sequence of searches sharing one table and validates scores, PVs and every
// exact entry stored.
func runC11(ctx context.Context, cs c11case, vm *valueMemo) (res c11result) {
	defer func() {
		if r := recover(); r != nil {
			res.problems = append(res.problems, c11problem{"panic", fmt.Sprintf("panic: %v", r)})
		}
	}()
	rec := &posRec{byHash: map[board.ZobristHash]string{}}
	s, _ := ttSearch(cs.Kind, rec)
	var inner search.TranspositionTable = search.NewTranspositionTable(ctx, cs.Size)
	if cs.Min > 0 {
		inner = search.NewMinDepthTranspositionTable(cs.Min)(ctx, cs.Size)
	}
	tt := &recTT{inner: inner}
	add := func(cls, format string, args ...any) {
		if len(res.problems) < 3 {
			res.problems = append(res.problems, c11problem{cls, fmt.Sprintf(format, args...)})
		}
	}
	type entryKey struct {
		h     board.ZobristHash
		depth int
		score eval.Score
	}
	validated := map[entryKey]bool{}
	// the sequence of (root, depth) pairs
	type step struct {
		root  searchRoot
		depth int
	}
	var steps []step
	switch cs.Seq {
	case "deepen":
		for d := 1; d <= cs.Depth; d++ {
			steps = append(steps, step{cs.Root, d})
		}
		steps = append(steps, step{cs.Root, cs.Depth})
	case "repeat":
		steps = []step{{cs.Root, cs.Depth}, {cs.Root, cs.Depth}, {cs.Root, cs.Depth - 1}, {cs.Root, cs.Depth}}
	case "game":
		steps = []step{{cs.Root, cs.Depth}}
	case "twoids": // iterative deepening, one move by each side (ANY pair), iterative deepening again
		next := searchRoot{FEN: cs.Root.FEN, Moves: append(append([]string(nil), cs.Root.Moves...), cs.Line...), Tags: cs.Root.Tags}
		for _, r := range []searchRoot{cs.Root, next} {
			for d := 1; d <= cs.Depth; d++ {
				steps = append(steps, step{r, d})
			}
		}
	case "gamedeepen": // what an engine does: iterative deepening at every position of the game, one table
		for d := 1; d <= cs.Depth; d++ {
			steps = append(steps, step{cs.Root, d})
		}
	}
	for i := 0; i < len(steps); i++ {
		st := steps[i]
		if st.depth < 1 {
			continue
		}
		b, g := newSearchBoards(st.root, 0)
		// the property excludes searches in whose tree a repetition or fifty-move draw can arise: a
		// third occurrence needs 8 plies of reversible play (history tail + depth), the clock 100
		tail := 0
		for i := len(g.Moves) - 1; i >= 0 && !ref.IsZeroing(g.Moves[i]) && g.Moves[i].Kind != ref.CastleK && g.Moves[i].Kind != ref.CastleQ; i-- {
			tail++
		}
		if tail+st.depth >= 8 || g.CurClock()+st.depth >= 100 {
			res.excluded++
			continue
		}
		legalMoves := g.Cur().Legal()
		rootFEN := g.Cur().FEN(0, 1)
		mark := len(tt.writes)
		_, score, pv, err := s.Search(ctx, &search.Context{TT: tt}, b, st.depth)
		res.searches++
		if err != nil {
			add("error", "search %d failed: %v", i+1, err)
			return
		}
		want, haveWant := vm.value(ctx, cs.Kind, rootFEN, st.depth)
		if !haveWant {
			res.skipped++ // the root's reference value is beyond the node budget: the other clauses still apply
		}
		// same root score as without a table
		b0, _ := newSearchBoards(st.root, 0)
		s0, _ := ttSearch(cs.Kind, &posRec{byHash: map[board.ZobristHash]string{}})
		_, score0, _, _ := s0.Search(ctx, &search.Context{TT: search.NoTranspositionTable{}}, b0, st.depth)
		if score != score0 {
			add("score", "search %d of the sequence (depth %d at %v): score %v with the table, %v without", i+1, st.depth, st.root, score, score0)
		}
		if rs, ok := bridge.RefScore(score); haveWant && (!ok || !rs.Eq(want)) {
			add("score-ref", "search %d of the sequence (depth %d at %v): score %v with the table, exhaustive minimax gives %v", i+1, st.depth, st.root, score, bridge.ImplScore(want))
		}
		// the PV still begins with a best legal move
		if len(legalMoves) > 0 && b.Result().Outcome != board.Draw {
			if len(pv) == 0 {
				add("pv-empty", "search %d of the sequence (depth %d at %v): no principal variation although the root has legal moves (score %v)", i+1, st.depth, st.root, score)
			} else if _, legal := g.Cur().FindMove(bridge.Text(pv[0])); !legal {
				add("pv-first", "search %d of the sequence (depth %d at %v): first PV move %s is not legal", i+1, st.depth, st.root, bridge.Text(pv[0]))
			} else if !haveWant {
				// no reference value to compare the first move with
			} else if msg := pvFirstAttains(ctx, vm, cs.Kind, g, pv[0], st.depth, want); msg != "" {
				add("pv-first", "search %d of the sequence (depth %d at %v): %s", i+1, st.depth, st.root, msg)
			}
		}
		// every exact entry stored by this search is the true value of that position at that depth
		for _, w := range tt.writes[mark:] {
			if w.Bound != search.ExactBound {
				continue
			}
			f, ok := rec.byHash[w.Hash]
			if !ok {
				f, ok = rec.childOf(w.Hash) // a search nested inside the leaf evaluation visits positions the seams do not see
			}
			if !ok {
				add("unknown-hash", "an entry was stored under a hash the search never visited")
				continue
			}
			v, ok := vm.value(ctx, cs.Kind, f, w.Depth)
			if !ok {
				res.skipped++
				continue
			}
			res.exactChecked++
			validated[entryKey{w.Hash, w.Depth, w.Score}] = true
			if rs, ok := bridge.RefScore(w.Score); !ok || !rs.Eq(v) {
				res.exactWrong++
				add("exact-entry", "search %d of the sequence stored Exact depth=%d score=%v for %s whose value at that depth is %v", i+1, w.Depth, w.Score, f, bridge.ImplScore(v))
			}
		}
		// ... and so is every exact entry the table now HOLDS for a position the searches visited
		// (what a store was asked to keep and what the table serves afterwards need not be the same)
		for h, f := range rec.byHash {
			bound, depth, sc, _, ok := tt.inner.Read(h)
			if !ok || bound != search.ExactBound || validated[entryKey{h, depth, sc}] {
				continue
			}
			validated[entryKey{h, depth, sc}] = true
			v, ok := vm.value(ctx, cs.Kind, f, depth)
			if !ok {
				res.skipped++
				continue
			}
			res.exactChecked++
			if rs, ok := bridge.RefScore(sc); !ok || !rs.Eq(v) {
				res.exactWrong++
				add("exact-entry-held", "after search %d of the sequence the table serves Exact depth=%d score=%v for %s whose value at that depth is %v (no store of that search asked for this entry)", i+1, depth, sc, f, bridge.ImplScore(v))
			}
		}
		if cs.Seq == "game" && len(pv) > 0 && len(st.root.Moves)-len(cs.Root.Moves) < 3 {
			next := searchRoot{FEN: st.root.FEN, Moves: append(append([]string(nil), st.root.Moves...), bridge.Text(pv[0])), Tags: st.root.Tags}
			if _, g2 := newSearchBoards(next, 0); len(g2.Cur().Legal()) > 0 && !g2.DrawNow() {
				steps = append(steps, step{next, cs.Depth})
			}
		}
		if cs.Seq == "gamedeepen" && st.depth == cs.Depth && len(pv) > 0 && len(st.root.Moves)-len(cs.Root.Moves) < 4 {
			// the game goes on with the engine's move and every kind of reply: the best one (PV) ...
			line := []string{bridge.Text(pv[0])}
			if len(pv) > 1 {
				line = append(line, bridge.Text(pv[1]))
			}
			next := searchRoot{FEN: st.root.FEN, Moves: append(append([]string(nil), st.root.Moves...), line...), Tags: st.root.Tags}
			if _, g2 := newSearchBoards(next, 0); len(g2.Cur().Legal()) > 0 && !g2.DrawNow() {
				for d := 1; d <= cs.Depth; d++ {
					steps = append(steps, step{next, d})
				}
			}
		}
	}
	if u := tt.Used(); u < 0 || u > 1 {
		add("used", "fill fraction %v outside [0,1]", u)
	}
	return res
}

var ttRoots = []searchRoot{
	{"k7/8/2K5/8/8/8/8/7R b - - 0 1", nil, "net"},
	{"8/8/8/4k3/8/8/3QK3/8 w - - 0 1", nil, "net"},
	{"6k1/5ppp/8/8/8/8/5PPP/3R2K1 w - - 0 1", nil, "backrank"},
	{"4k3/2n1p3/3p4/2P1P3/3P4/8/8/4K3 w - - 0 1", nil, "pawns"},
	{"r3k3/1p6/2P5/8/8/5b2/4P3/R3K3 w Qq - 0 1", nil, "tactical"},
	{"8/8/3k4/2pPp3/2P1P3/3K4/8/8 w - - 0 1", nil, "pawns net"},
	{"4k3/8/8/3q4/4P3/8/3R4/4K3 b - - 0 1", nil, "tactical"},
	{"8/P6k/8/8/8/8/8/K7 w - - 0 1", nil, "promo net"},
	{"4k3/8/8/8/8/8/1pn5/K1B5 w - - 0 1", nil, "insufficient"},
	{"r1b1k3/ppp5/8/4N3/8/8/PPP5/2K5 w - - 0 1", []string{"e5f7"}, "tactical"},
	{"2k5/8/8/8/8/8/4r3/R3K3 w Q - 0 20", []string{"e1e2"}, "tactical net"},
	{"7k/8/5K2/6Q1/8/8/8/8 b - - 0 1", nil, "net"},
	// capture-rich middlegames, shallow: most entries are quiescence leaves (depth 0) whose
	// searches fail low and high all the time
	{"r3k2r/p1ppqpb1/bn2pnp1/3PN3/1p2P3/2N2Q1p/PPPBBPPP/R3K2R w KQkq - 0 1", nil, "rich"},
	{"1nk3rR/2p3b1/b3ppP1/5q2/p1B1P1n1/2Bp4/P7/RN2KR2 w - - 4 36", nil, "rich"},
	{"r5nr/R2nk1pp/5p2/1ppppb1q/1P3P2/K2PP1PB/2PbQ2P/1N4NR b - - 3 16", nil, "rich"},
	{"r1bq1rk1/pp2bppp/2n1pn2/2pp4/3P1B2/2PBPN2/PP1N1PPP/R2QK2R w KQ - 0 8", nil, "rich"},
	{"2r3k1/pp3ppp/2n1b3/3pP3/3P1B2/P4N2/1q3PPP/R2Q2K1 w - - 0 18", nil, "rich"},
	{"r1bq2kr/pp3ppp/8/1p2n3/7b/P1N5/1PP3PP/RNB3KR w - - 1 15", nil, "rich"}, // depth 2 and depth 3 agree on the score but not on the best move
}

func checkC11(c *harness.Check) {
	mustAnchors(c)
	sizes := []uint64{32, 64, 512, 32768, 1 << 20}
	c.Rule = fmt.Sprintf("roots with position-determined evaluation and exploration (static material leaf; captures-only quiescence over material) whose trees cannot contain a repetition or fifty-move draw x depth <= D x table sizes %v bytes x sequences of searches sharing ONE table (iterative deepening 1..d then d again; the same root at d,d,d-1,d; successive positions of a game along the PV; iterative deepening 1..d at every second position of a game along the PV, as an engine playing a game does; for the low-branching roots: iterative deepening, then EVERY move and EVERY reply, then iterative deepening again). All of it again with the table behind NewMinDepthTranspositionTable(1|2) (the wrapper cmd/morlock uses) for two sizes. Through the iterative-deepening DRIVER: every position within 2 plies of a capture-rich root analysed three times to depth 3 on one table - every iteration reported carries the table-free score of its depth and a variation whose first move is worth it. Through the ENGINE: games of 4-6 plies played by an engine with a 1 MB table (analyse, play the first move) next to an engine without a table given the same moves: same depth and score at every position, the move played worth it; the same as a NEW game (Reset) right after both engines were set up with and analysed the same placement 2 and 1 half-moves from the fifty-move draw (a game whose values its history shaped). Oracle per search: score == score without table == reference minimax; PV non-empty and its first move attains the reference value; EVERY ExactBound store (hash mapped back to its position through the Exploration/QuietSearch seams) equals the reference value of that position at that depth, and so does every exact entry the table HOLDS after the search for any position visited (table swept by Read). Capture-rich middlegame roots (shallow, most entries quiescence leaves), where exhaustive minimax is out of reach: there the value of (position, depth) is what the search itself returns for it on a fresh board without a table. plus a single-bit key probe: an entry stored under h is never returned for h with any one or any two of its 64 bits flipped, a 32-bit half inverted, or the halves swapped (all table sizes). distinct_nontrivial = distinct (position, depth) pairs of validated exact entries", sizes)
	var cases []c11case
	for _, r := range ttRoots {
		max := c.Pick(3, 4)
		if strings.Contains(r.Tags, "net") {
			max = c.Pick(4, 5)
		}
		if strings.Contains(r.Tags, "rich") {
			max = c.Pick(3, 4)
		}
		for _, kind := range []string{"static", "quiescence", "onecheck"} {
			if kind == "onecheck" && strings.Contains(r.Tags, "rich") {
				continue
			}
			for _, size := range sizes {
				for _, seq := range []string{"deepen", "repeat", "game", "gamedeepen"} {
					for d := 2; d <= max; d++ {
						if (seq == "deepen" || seq == "gamedeepen") && d != max {
							continue
						}
						cases = append(cases, c11case{Root: r, Kind: kind, Size: size, Depth: d, Seq: seq})
					}
				}
			}
		}
	}
	// one full move of a game between two runs of iterative deepening, for EVERY move and EVERY
	// reply (positions come back over longer paths at smaller depths: replacement at work)
	pairs := 0
	for _, r := range ttRoots {
		if !strings.Contains(r.Tags, "net") {
			continue
		}
		_, g := newSearchBoards(r, 0)
		for _, m1 := range g.Cur().Legal() {
			p1 := g.Cur().Make(m1)
			for _, m2 := range p1.Legal() {
				if p2 := p1.Make(m2); len(p2.Legal()) == 0 || ref.Insufficient(p2) {
					continue
				}
				pairs++
				for _, kind := range []string{"static", "quiescence"} {
					for _, size := range []uint64{512, 1 << 20} {
						cases = append(cases, c11case{Root: r, Kind: kind, Size: size, Depth: c.Pick(4, 5), Seq: "twoids", Line: []string{m1.String(), m2.String()}})
					}
				}
			}
		}
	}
	c.SetExtra("move_reply_pairs_between_two_deepenings", pairs)
	// the depth-limited wrapper (what cmd/morlock hands to its engine): every case whose table has
	// 512 bytes or 1 MB again behind NewMinDepthTranspositionTable(1) and (2)
	for _, cs := range append([]c11case(nil), cases...) {
		if (cs.Size == 512 || cs.Size == 1<<20) && (cs.Seq != "twoids" || cs.Kind == "quiescence") {
			for _, min := range []int{1, 2} {
				w := cs
				w.Min = min
				cases = append(cases, w)
			}
		}
	}
	vm := newValueMemo(int64(c.Pick(3_000_000, 30_000_000)))
	vmRich := newValueMemo(0)
	vmRich.impl = true
	var cc classCap
	ctx := context.Background()
	// the engine-level families first: they are the cheaper ones, and a deadline (a loaded machine)
	// should cut the long sweep short rather than skip them
	engineGames(c, vmRich)
	iterativeFamily(c, vmRich)
	harness.Parallel(len(cases), func(i int) {
		if c.Expired() {
			return
		}
		cs := cases[i]
		m := vm
		if strings.Contains(cs.Root.Tags, "rich") {
			m = vmRich
		}
		res := runC11(ctx, cs, m)
		c.Traces.Add(int64(res.searches))
		c.Evaluations.Add(int64(res.exactChecked + res.searches))
		c.Transitions.Add(int64(res.exactChecked))
		c.AddExtra("exact_entries_validated", int64(res.exactChecked))
		c.AddExtra("exact_entries_wrong", int64(res.exactWrong))
		if res.excluded > 0 {
			c.AddExtra("searches_excluded_history_draw_possible", int64(res.excluded))
		}
		if res.skipped > 0 {
			c.AddExtra("values_skipped_reference_budget", int64(res.skipped))
		}
		for _, p := range res.problems {
			c.Violation(cc.sig("C11/"+p.cls, cs.String()), p.msg+"\n    case: "+cs.String(), "C11/case", cs)
		}
	})
	for _, m := range []*valueMemo{vm, vmRich} {
		m.mu.Lock()
		c.States.Add(int64(len(m.m)))
		for k := range m.m {
			c.Distinct(k)
		}
		m.mu.Unlock()
	}
	// the table must tell apart hashes that differ in ANY single bit (a truncated stored key would
	// serve one position's entry for another): store under h, look up h with one bit flipped
	for _, size := range append([]uint64{1 << 26}, sizes...) {
		tt := search.NewTranspositionTable(ctx, size)
		for _, h := range []board.ZobristHash{0x0123456789abcdef, 0xffffffffffffffff, 0x8000000000000001} {
			tt.Write(h, search.ExactBound, 9, 9, eval.HeuristicScore(1), board.Move{From: board.E2, To: board.E4})
			if _, _, _, _, ok := tt.Read(h); !ok {
				continue // replaced or not stored: nothing to tell apart
			}
			// ... and in any TWO bits (a stored key that folds, adds or xors parts of the hash lets two
			// flips cancel), in either 32-bit half wholesale, and in the two halves swapped
			others := []board.ZobristHash{h ^ 0xffffffff, h ^ 0xffffffff00000000, h<<32 | h>>32, h ^ 0xffff0000ffff0000, ^h}
			for k := 0; k < 64; k++ {
				for j := k + 1; j < 64; j++ {
					others = append(others, h^1<<uint(k)^1<<uint(j))
				}
			}
			for _, o := range others {
				c.Evaluations.Add(1)
				if o == h {
					continue
				}
				if _, d, sc, _, ok := tt.Read(o); ok {
					c.Violation(fmt.Sprintf("C11/foreign-hit size=%d other=%x", size, uint64(h^o)), fmt.Sprintf("table of %d bytes: an entry stored under hash %x is returned (depth %d, %v) for hash %x (difference %x)", size, uint64(h), d, sc, uint64(o), uint64(h^o)), "C11/note", 0)
					break
				}
			}
			for k := 0; k < 64; k++ {
				c.Evaluations.Add(1)
				if _, d, sc, _, ok := tt.Read(h ^ 1<<uint(k)); ok {
					c.Violation(fmt.Sprintf("C11/foreign-hit size=%d bit=%d", size, k), fmt.Sprintf("table of %d bytes: an entry stored under hash %x is returned (depth %d, %v) for hash %x which differs in bit %d", size, uint64(h), d, sc, uint64(h^1<<uint(k)), k), "C11/note", k)
				}
			}
		}
	}
	// degenerate sizes must not crash
	for _, size := range []uint64{0, 1, 16, 31} {
		func() {
			defer func() {
				if r := recover(); r != nil {
					c.Violation(fmt.Sprintf("C11/tiny-table size=%d", size), fmt.Sprintf("a table of %d bytes cannot be created: panic: %v", size, r), "C11/note", size)
				}
			}()
			tt := search.NewTranspositionTable(ctx, size)
			tt.Write(1, search.ExactBound, 1, 1, eval.ZeroScore, board.Move{})
			tt.Read(1)
			if u := tt.Used(); u < 0 || u > 1 {
				c.Violation(fmt.Sprintf("C11/tiny-used size=%d", size), fmt.Sprintf("fill fraction %v", u), "C11/note", size)
			}
		}()
	}
	c.Sample(cases[0])
	c.Sample(cases[len(cases)/2])
	c.Finish()
}

// pvFirstAttains checks that the move is legal and that playing it is worth the value of the
// position (reference values on fresh games: valid where no history draw can arise).
func pvFirstAttains(ctx context.Context, vm *valueMemo, kind string, g *ref.Game, m board.Move, depth int, want ref.Score) string {
	rm, ok := g.Cur().FindMove(bridge.Text(m))
	if !ok {
		return fmt.Sprintf("first PV move %s is not legal", bridge.Text(m))
	}
	child := g.Cur().Make(rm)
	var cv ref.Score
	if (rm.Kind == ref.Capture || ((rm.Kind == ref.Promotion || rm.Kind == ref.CapturePromotion) && (rm.Promo == ref.B || rm.Promo == ref.N))) && ref.Insufficient(child) {
		cv = ref.Zero
	} else {
		var okv bool
		if cv, okv = vm.value(ctx, kind, child.FEN(0, 1), depth-1); !okv {
			return ""
		}
	}
	if !cv.Inc().Neg().Eq(want) {
		return fmt.Sprintf("first PV move %s is worth %v, the position %v", bridge.Text(m), bridge.ImplScore(cv.Inc().Neg()), bridge.ImplScore(want))
	}
	return ""
}
