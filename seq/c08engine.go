package seq

import (
	"context"
	"encoding/json"
	"fmt"

	"github.com/herohde/morlock/pkg/board"
	"verif/bridge"
	"verif/harness"
	"verif/ref"
)

// The forks an ENGINE hands out (Engine.Board) are independent of its game: whatever is done to
// one - moves, take-backs, adjudication - the engine reports the same game, and the engine's
// own moves and take-backs never show on a board handed out earlier.
type c08engCase struct {
	FEN   string
	Moves []string
}

func init() {
	Replayers["C08/engine"] = func(data json.RawMessage) (bool, string) {
		var cs c08engCase
		_ = json.Unmarshal(data, &cs)
		msg := runC08Engine(cs)
		return msg != "", msg
	}
}

func runC08Engine(cs c08engCase) (msg string) {
	defer func() {
		if r := recover(); r != nil {
			msg = fmt.Sprintf("panic: %v", r)
		}
	}()
	ctx := context.Background()
	e := newPlainEngine(ctx)
	if err := e.Reset(ctx, cs.FEN); err != nil {
		return "reset failed: " + err.Error()
	}
	g, _ := ref.GameFromFEN(cs.FEN)
	for _, t := range cs.Moves {
		m, ok := g.Cur().FindMove(t)
		if !ok {
			return "bad case"
		}
		if err := e.Move(ctx, t); err != nil {
			return "legal move rejected: " + err.Error()
		}
		g.Push(m)
	}
	state := func() string { return bridge.Snapshot(e.Board(), true) + "|" + e.Position() }
	before := state()
	// (1) whatever happens to a board handed out, the engine's game is untouched
	b := e.Board()
	bsnap := bridge.Snapshot(b, true)
	for _, m := range b.Position().LegalMoves(b.Turn()) {
		if b.PushMove(m) {
			if got := state(); got != before {
				return fmt.Sprintf("a move played on the board handed out by Board() changed the engine's own game:\n      before %s\n      after  %s", before, got)
			}
			b.PopMove()
		}
	}
	b.Adjudicate(board.Result{Outcome: board.Draw, Reason: board.Stalemate})
	if got := state(); got != before {
		return "adjudicating the board handed out by Board() changed the engine's own game"
	}
	// (taking back BELOW the point the board was handed out at is outside the property: "above the fork point")
	// (2) the engine's own moves and take-backs never show on a board handed out earlier
	b2 := e.Board()
	if s := bridge.Snapshot(b2, true); s != bsnap {
		return "two boards handed out for the same game differ"
	}
	if ms := g.Cur().Legal(); len(ms) > 0 {
		if err := e.Move(ctx, ms[0].String()); err != nil {
			return "legal move rejected: " + err.Error()
		}
		if s := bridge.Snapshot(b2, true); s != bsnap {
			return "a move played on the engine shows on a board handed out earlier"
		}
		if err := e.TakeBack(ctx); err != nil {
			return "take-back failed: " + err.Error()
		}
		if s := bridge.Snapshot(b2, true); s != bsnap {
			return "a move and its take-back on the engine show on a board handed out earlier"
		}
	}
	return ""
}

func engineForks(c *harness.Check) {
	cases := []c08engCase{
		{"k7/p7/P7/8/8/7p/7P/7K w - - 0 1", nil},
		{"k7/p7/P7/8/8/7p/7P/7K w - - 0 1", []string{"h1g1", "a8b8", "g1h1", "b8a8", "h1g1", "a8b8", "g1h1", "b8a8"}}, // a draw could be claimed
		{"r3k2r/8/8/8/8/8/8/R3K2R w KQkq - 98 40", []string{"e1g1", "e8c8"}},                                          // clock 100
		{"rnbqkbnr/ppp1pppp/8/8/3pP3/8/PPPP1PPP/RNBQKBNR b KQkq e3 0 3", []string{"d4e3"}},
		{"1n2k3/P7/8/8/8/8/7p/4K1N1 w - - 0 1", []string{"a7b8n"}},
		{"4k3/8/8/8/8/8/1p6/K7 w - - 0 1", []string{"a1b2"}}, // bare kings: insufficient material recorded
		{"r3k2r/8/8/8/8/8/8/R3K2R b KQkq - 3 7", []string{"a8a7"}},
	}
	var cc classCap
	harness.Parallel(len(cases), func(i int) {
		c.Evaluations.Add(1)
		c.AddExtra("engine_fork_cases", 1)
		if msg := runC08Engine(cases[i]); msg != "" {
			c.Violation(cc.sig("C08/engine", fmt.Sprintf("%s %v", cases[i].FEN, cases[i].Moves)), msg+fmt.Sprintf("\n    case: %+v", cases[i]), "C08/engine", cases[i])
		}
	})
}
