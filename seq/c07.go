package seq

import (
	"encoding/json"
	"fmt"
	"strings"
	"sync"

	"github.com/herohde/morlock/pkg/board"
	"verif/bridge"
	"verif/corpus"
	"verif/harness"
	"verif/ref"
)

func init() {
	Checks["C07"] = checkC07
	Replayers["C07/incr"] = func(data json.RawMessage) (bool, string) {
		var d struct {
			FEN, Move string
			Seed      int64
		}
		_ = json.Unmarshal(data, &d)
		rp, _, _, err := ref.ParseFEN(d.FEN)
		if err != nil {
			return false, "bad FEN"
		}
		n := refNode(rp)
		zt := board.NewZobristTable(d.Seed)
		for _, m := range implLegal(n.Pos, n.Turn) {
			if bridge.Text(m) == d.Move {
				sp, _ := n.Pos.Move(m)
				inc, scratch := zt.Move(zt.Hash(n.Pos, n.Turn), n.Pos, m), zt.Hash(sp, n.Turn.Opponent())
				return inc != scratch, fmt.Sprintf("incremental %x, from scratch %x", uint64(inc), uint64(scratch))
			}
		}
		return false, "move not found"
	}
	Replayers["C07/board"] = func(data json.RawMessage) (bool, string) {
		var d struct {
			FEN  string
			Ops  []string
			Seed int64
		}
		_ = json.Unmarshal(data, &d)
		b := bridge.NewBoard(d.FEN, d.Seed)
		zt := board.NewZobristTable(d.Seed)
		for i, op := range d.Ops {
			if op == "pop" {
				b.PopMove()
			} else {
				m, ok := bridge.FindImpl(b.Position(), b.Turn(), op)
				if !ok || !b.PushMove(m) {
					return false, "cannot replay " + op
				}
			}
			if b.Hash() != zt.Hash(b.Position(), b.Turn()) {
				return true, fmt.Sprintf("after op %d (%s): board hash %x, from scratch %x", i+1, op, uint64(b.Hash()), uint64(zt.Hash(b.Position(), b.Turn())))
			}
		}
		return false, "hash equals scratch hash after every operation"
	}
}

type hashBook struct {
	mu     sync.Mutex
	byKey  map[ref.Pos]board.ZobristHash
	byHash map[board.ZobristHash]ref.Pos
}

func (h *hashBook) record(c *harness.Check, k *ref.Pos, v board.ZobristHash, where string) {
	h.mu.Lock()
	defer h.mu.Unlock()
	if old, ok := h.byKey[*k]; ok && old != v {
		c.Violation("C07/path-dependent "+k.FEN(0, 1), fmt.Sprintf("same position hashed %x and %x on different paths (%s)", uint64(old), uint64(v), where), "C07/note", where)
	}
	h.byKey[*k] = v
	if old, ok := h.byHash[v]; ok && old != *k {
		c.Violation("C07/collision "+k.FEN(0, 1), fmt.Sprintf("positions %s and %s share hash %x", old.FEN(0, 1), k.FEN(0, 1), uint64(v)), "C07/note", where)
	}
	h.byHash[v] = *k
}

// keyTable reads the key material of a table through the public Hash function and checks that
// every single-component difference changes the hash: piece-square keys, castling keys, e.p.
// keys and the side key are non-zero and pairwise distinct.
func keyTable(c *harness.Check, seed int64) {
	zt := board.NewZobristTable(seed)
	empty, _ := board.NewPosition(nil, 0, 0)
	base := zt.Hash(empty, board.White)
	seen := map[board.ZobristHash]string{}
	add := func(k board.ZobristHash, what string) {
		c.Evaluations.Add(1)
		if k == 0 {
			c.Violation(fmt.Sprintf("C07/zero-key seed=%d %s", seed, what), "changing "+what+" does not change the hash", "C07/note", what)
			return
		}
		if other, ok := seen[k]; ok {
			c.Violation(fmt.Sprintf("C07/dup-key seed=%d %s", seed, what), "key of "+what+" equals key of "+other, "C07/note", what)
		}
		seen[k] = what
	}
	for col := board.ZeroColor; col < board.NumColors; col++ {
		for p := board.ZeroPiece; p < board.NumPieces; p++ {
			for sq := board.ZeroSquare; sq < board.NumSquares; sq++ {
				pos, _ := board.NewPosition([]board.Placement{{Square: sq, Color: col, Piece: p}}, 0, 0)
				add(zt.Hash(pos, board.White)^base, fmt.Sprintf("piece %v%v@%v", col, p, sq))
			}
		}
	}
	for r := board.Castling(1); r < board.NumCastling; r++ {
		pos, _ := board.NewPosition(nil, r, 0)
		add(zt.Hash(pos, board.White)^base, fmt.Sprintf("castling rights %v vs none", r))
	}
	for sq := board.ZeroSquare; sq < board.NumSquares; sq++ {
		if sq.Rank() == board.Rank3 || sq.Rank() == board.Rank6 {
			pos, _ := board.NewPosition(nil, 0, sq)
			add(zt.Hash(pos, board.White)^base, fmt.Sprintf("e.p. target %v", sq))
		}
	}
	add(zt.Hash(empty, board.Black)^base, "side to move")
}

// historyHashes walks every push sequence to the given depth on a game board and checks the
// maintained hash after every push and every pop.
func historyHashes(c *harness.Check, f string, seed int64, depth int, book *hashBook) {
	b := bridge.NewBoard(f, seed)
	zt := board.NewZobristTable(seed)
	rp, _, _, _ := ref.ParseFEN(f)
	var ops []string
	check := func(r *ref.Pos) {
		c.Evaluations.Add(1)
		if got, want := b.Hash(), zt.Hash(b.Position(), b.Turn()); got != want {
			sig := fmt.Sprintf("C07/board seed=%d %s ops=%s", seed, f, strings.Join(ops, ","))
			if c.NumViolations() < 40 {
				c.Violation(sig, fmt.Sprintf("board hash %x, hash from scratch %x", uint64(got), uint64(want)), "C07/board", map[string]any{"FEN": f, "Ops": append([]string(nil), ops...), "Seed": seed})
			} else {
				c.Violation("C07/board (more)", "further board-hash mismatches", "C07/note", sig)
			}
		} else if book != nil {
			book.record(c, r, b.Hash(), f+" "+strings.Join(ops, ","))
		}
	}
	var rec func(r *ref.Pos, d int)
	rec = func(r *ref.Pos, d int) {
		if d == 0 || c.Expired() {
			return
		}
		for _, rm := range r.Legal() {
			m, ok := bridge.FindImpl(b.Position(), b.Turn(), rm.String())
			if !ok || !b.PushMove(m) {
				continue
			}
			c.Transitions.Add(1)
			ops = append(ops, rm.String())
			nr := r.Make(rm)
			check(nr)
			rec(nr, d-1)
			b.PopMove()
			c.Transitions.Add(1)
			ops = append(ops, "pop")
			check(r)
			ops = ops[:len(ops)-2]
		}
		c.Traces.Add(1)
	}
	rec(rp, depth)
}

func checkC07(c *harness.Check) {
	mustAnchors(c)
	seeds := []int64{0, 1, 2, 3}
	if c.Seed != 0 && c.Seed > 3 {
		seeds = append(seeds, c.Seed)
	} else {
		seeds = append(seeds, 20260917)
	}
	c.Rule = fmt.Sprintf("table seeds %v; (a) every (node, move) of BFS closures + corner/e.p./promotion families: ZobristTable.Move(h,pos,m) == Hash(successor) and key->hash is a function and injective over all visited positions; (b) every push and every pop of all push sequences to depth n on game boards from castling/e.p./promotion/fortress roots: Board.Hash() == Hash(Position(),Turn()); (c) complete key-table probe through Hash: 768 piece-square keys, 15 castling-set differences, 16 e.p. keys, side key non-zero and pairwise distinct - for the table seeds and for ~450 special seeds (0, +-1, powers of two and neighbours, extremes, well-known mixing constants with their negations and complements). distinct_nontrivial = distinct (move kind, rights lost, e.p. before/after) classes", seeds)
	for _, s := range seeds {
		keyTable(c, s)
	}
	// the key-table probe (800 keys, microseconds) over the seeds a generator is most likely to be
	// weak for: 0, +-1, every power of two and its neighbours and negations, the extremes, and the
	// well-known mixing constants (golden ratio, splitmix/murmur multipliers, pi) and their negations
	// and complements - a generator with a fixed point or an all-zero state is typically offset by one
	// of these, which only moves the bad seed
	special := map[int64]bool{}
	for k := 0; k < 64; k++ {
		p := int64(1) << uint(k)
		for _, v := range []int64{p, p - 1, p + 1, -p, -p - 1, -p + 1} {
			special[v] = true
		}
	}
	for _, u := range []uint64{0x9e3779b97f4a7c15, 0xbf58476d1ce4e5b9, 0x94d049bb133111eb, 0xff51afd7ed558ccd, 0xc4ceb9fe1a85ec53, 0x2545f4914f6cdd1d, 0x5851f42d4c957f2d, 0x14057b7ef767814f, 0x243f6a8885a308d3, 0x6a09e667f3bcc908, 0xdeadbeefcafebabe, 0x9e3779b9, 0x5bd1e995, 0xcc9e2d51, 0x1b873593, 88172645463325252} {
		for _, v := range []uint64{u, -u, ^u, u >> 1, -(u >> 1)} {
			special[int64(v)] = true
		}
	}
	nSpecial := 0
	for s := range special {
		done := false
		for _, t := range seeds {
			done = done || t == s
		}
		if !done {
			keyTable(c, s)
			nSpecial++
		}
	}
	c.SetExtra("special_seeds_key_table_probed", nSpecial)
	c.Sample(map[string]any{"key_table_probe": "Hash({wN@g1}) xor Hash({}) etc.", "keys_per_seed": 800})

	tables := make([]*board.ZobristTable, len(seeds))
	for i, s := range seeds {
		tables[i] = board.NewZobristTable(s)
	}
	book := &hashBook{byKey: map[ref.Pos]board.ZobristHash{}, byHash: map[board.ZobristHash]ref.Pos{}}
	visit := func(n *Node) {
		book.record(c, n.Ref, tables[0].Hash(n.Pos, n.Turn), n.Where())
	}
	edge := func(n *Node, m board.Move, rm ref.Move, succ *Node) {
		c.Traces.Add(1)
		for i, zt := range tables {
			c.Evaluations.Add(1)
			inc, scratch := zt.Move(zt.Hash(n.Pos, n.Turn), n.Pos, m), zt.Hash(succ.Pos, succ.Turn)
			if inc != scratch {
				c.Violation(fmt.Sprintf("C07/incr seed=%d %s %s", seeds[i], n.Ref.FEN(0, 1), bridge.Text(m)),
					fmt.Sprintf("incremental hash %x, from scratch %x after %s at %s", uint64(inc), uint64(scratch), bridge.Text(m), n.Where()),
					"C07/incr", map[string]any{"FEN": n.Ref.FEN(0, 1), "Move": bridge.Text(m), "Seed": seeds[i]})
			}
		}
		c.Distinct(fmt.Sprint(rm.Kind, n.Ref.Castle&^succ.Ref.Castle, n.Ref.EP >= 0, succ.Ref.EP >= 0, rm.Captured))
	}
	Walk(c, seedNodes(corpus.Tagged("big")), c.Pick(1, 2), visit, edge)
	Walk(c, seedNodes(corpus.NotTagged("big")), c.Pick(2, 3), visit, edge)
	WalkFlat(c, corpus.CornerFamily, visit, edge)
	WalkFlat(c, corpus.PromotionFamily, visit, edge)
	WalkFlat(c, func(e func(*ref.Pos)) { corpus.EnPassantFamily(false, e) }, visit, edge)
	c.Sample(map[string]any{"node": corpus.Initial, "move": "g1f3", "compare": "zt.Move(zt.Hash(pos,w),pos,m) vs zt.Hash(succ,b)"})

	// game boards: histories with push and pop
	type job struct {
		fen   string
		depth int
		seed  int64
	}
	var jobs []job
	for _, s := range corpus.Seeds {
		d := c.Pick(2, 3)
		switch {
		case strings.Contains(s.Tags, "fortress"):
			d = c.Pick(7, 10)
		case strings.Contains(s.Tags, "low"):
			d = c.Pick(4, 6)
		case !strings.Contains(s.Tags, "big"):
			d = c.Pick(3, 4)
		}
		for _, sd := range seeds[:c.Pick(2, len(seeds))] {
			jobs = append(jobs, job{s.FEN, d, sd})
		}
	}
	books := map[int64]*hashBook{seeds[0]: book}
	harness.Parallel(len(jobs), func(i int) {
		historyHashes(c, jobs[i].fen, jobs[i].seed, jobs[i].depth, books[jobs[i].seed])
	})
	c.Sample(map[string]any{"board_history": "r3k2r/8/8/8/8/8/8/R3K2R w KQkq - 0 1", "ops": []string{"e1g1", "e8c8", "pop", "pop"}})
	c.SetExtra("positions_in_function_injectivity_map", len(book.byKey))
	c.Finish()
}
