package seq

import (
	"context"
	"encoding/json"
	"fmt"
	"strings"
	"time"

	"github.com/herohde/morlock/pkg/board"
	"github.com/herohde/morlock/pkg/eval"
	"github.com/herohde/morlock/pkg/search"
	"verif/bridge"
	"verif/harness"
	"verif/ref"
)

func init() {
	Checks["C12"] = checkC12
	Replayers["C12/halt"] = func(data json.RawMessage) (bool, string) {
		var d struct {
			Case c12case
			N    int64
		}
		_ = json.Unmarshal(data, &d)
		_, msg := runC12(context.Background(), d.Case, d.N, newValueMemo(50_000_000))
		return msg != "", msg
	}
}

// pollCtx is a context whose cancellation is decided by the number of times the search has
// polled it: from the CancelAt-th call of Done() on it is cancelled (and stays so).
type pollCtx struct {
	polls    int64
	cancelAt int64 // 0 = never
	closed   chan struct{}
	open     chan struct{}
}

func newPollCtx(cancelAt int64) *pollCtx {
	c := &pollCtx{cancelAt: cancelAt, closed: make(chan struct{}), open: make(chan struct{})}
	close(c.closed)
	return c
}

func (c *pollCtx) Deadline() (time.Time, bool) { return time.Time{}, false }
func (c *pollCtx) Value(key any) any           { return nil }
func (c *pollCtx) cancelled() bool             { return c.cancelAt > 0 && c.polls >= c.cancelAt }
func (c *pollCtx) Done() <-chan struct{} {
	c.polls++
	if c.cancelled() {
		return c.closed
	}
	return c.open
}
func (c *pollCtx) Err() error {
	if c.cancelled() {
		return context.Canceled
	}
	return nil
}

type c12case struct {
	Root   searchRoot
	Kind   string // static | quiescence (with table), sargon | minimax (no table)
	Depth  int
	Warmed bool // the table has seen a depth-1 search of the root before the halted search
}

func (cs c12case) String() string {
	return fmt.Sprintf("%s d=%d warmed=%v %v", cs.Kind, cs.Depth, cs.Warmed, cs.Root)
}

func (cs c12case) search(rec *posRec) search.Search {
	switch cs.Kind {
	case "static", "quiescence":
		s, _ := ttSearch(cs.Kind, rec)
		return s
	case "minimax":
		return search.Minimax{Eval: search.Leaf{Eval: eval.Material{}}}
	default:
		s, _, _ := cfgByName(cs.Kind).Make()
		return s
	}
}

func (cs c12case) usesTable() bool { return cs.Kind == "static" || cs.Kind == "quiescence" }

// newTable returns the table state the halted search starts from.
func (cs c12case) newTable(ctx context.Context, rec *posRec) *recTT {
	tt := &recTT{inner: search.NewTranspositionTable(ctx, 1<<12)}
	if cs.Warmed {
		b, _ := newSearchBoards(cs.Root, 0)
		_, _, _, _ = cs.search(rec).Search(ctx, &search.Context{TT: tt}, b, 1)
		tt.writes = nil
	}
	return tt
}

// countPolls runs the search to completion and returns how often it polled for cancellation.
func countPolls(cs c12case) int64 {
	bg := context.Background()
	rec := &posRec{byHash: map[board.ZobristHash]string{}}
	pc := newPollCtx(0)
	b, _ := newSearchBoards(cs.Root, 0)
	var tt search.TranspositionTable = search.NoTranspositionTable{}
	if cs.usesTable() {
		tt = cs.newTable(bg, rec)
	}
	_, _, _, _ = cs.search(rec).Search(pc, &search.Context{TT: tt}, b, cs.Depth)
	return pc.polls
}

type followUp struct {
	root  searchRoot
	depth int
}

// runC12 halts the search at its n-th cancellation poll and checks every clause of C12.
func runC12(bg context.Context, cs c12case, n int64, vm *valueMemo) (cls, msg string) {
	defer func() {
		if r := recover(); r != nil {
			cls, msg = "panic", fmt.Sprintf("panic: %v", r)
		}
	}()
	rec := &posRec{byHash: map[board.ZobristHash]string{}}
	var tt search.TranspositionTable = search.NoTranspositionTable{}
	var rtt *recTT
	if cs.usesTable() {
		rtt = cs.newTable(bg, rec)
		tt = rtt
	}
	b, g := newSearchBoards(cs.Root, 0)
	hasMoves := len(g.Cur().Legal()) > 0
	before := bridge.Snapshot(b, true)
	pc := newPollCtx(n)
	_, score, pv, err := cs.search(rec).Search(pc, &search.Context{TT: tt}, b, cs.Depth)
	if !pc.cancelled() {
		return "", "" // the search ended before its n-th poll: nothing was halted
	}
	if err != search.ErrHalted {
		return "not-halted", fmt.Sprintf("halted at poll %d but the search returned score %v pv %s err %v instead of reporting that it was halted", n, score, bridge.MovesText(pv), err)
	}
	if after := bridge.Snapshot(b, true); !sameState(before, after, hasMoves) {
		return "board", fmt.Sprintf("halted at poll %d: the board was not handed back in the state it was received in\n      before %s\n      after  %s", n, before, after)
	}
	if rtt == nil {
		return "", ""
	}
	// whatever the halted search left in the table must be true
	for _, w := range rtt.writes {
		if w.Bound != search.ExactBound {
			continue
		}
		f, ok := rec.byHash[w.Hash]
		if !ok {
			return "unknown-hash", "an entry was stored under a hash the search never visited"
		}
		v, ok := vm.value(bg, cs.Kind, f, w.Depth)
		if !ok {
			continue
		}
		if rs, ok := bridge.RefScore(w.Score); !ok || !rs.Eq(v) {
			return "entry", fmt.Sprintf("halted at poll %d: the search left Exact depth=%d score=%v in the table for %s whose value at that depth is %v", n, w.Depth, w.Score, f, bridge.ImplScore(v))
		}
	}
	// a search run afterwards with the same table returns what it returns on a table that never
	// saw the halted search
	follow := []followUp{{cs.Root, cs.Depth}, {cs.Root, cs.Depth + 1}}
	if hasMoves {
		child := searchRoot{FEN: cs.Root.FEN, Moves: append(append([]string(nil), cs.Root.Moves...), g.Cur().Legal()[0].String())}
		follow = append(follow, followUp{child, cs.Depth})
	}
	for _, fu := range follow {
		fb, fg := newSearchBoards(fu.root, 0)
		if len(fg.Cur().Legal()) == 0 {
			continue
		}
		_, s1, pv1, err1 := cs.search(rec).Search(bg, &search.Context{TT: rtt}, fb, fu.depth)
		cb, _ := newSearchBoards(fu.root, 0)
		clean := cs.newTable(bg, &posRec{byHash: map[board.ZobristHash]string{}})
		_, s2, _, err2 := cs.search(&posRec{byHash: map[board.ZobristHash]string{}}).Search(bg, &search.Context{TT: clean}, cb, fu.depth)
		if err1 != nil || err2 != nil {
			return "follow-error", fmt.Sprintf("follow-up search failed: %v / %v", err1, err2)
		}
		if s1 != s2 {
			return "follow-score", fmt.Sprintf("halted at poll %d; the follow-up search (depth %d at %v) on the same table returns %v, on a table that never saw the halted search %v", n, fu.depth, fu.root, s1, s2)
		}
		if fb.Result().Outcome != board.Draw {
			if len(pv1) == 0 {
				return "follow-pv", fmt.Sprintf("halted at poll %d; the follow-up search (depth %d at %v) has no principal variation", n, fu.depth, fu.root)
			}
			if want, ok := vm.value(bg, cs.Kind, fg.Cur().FEN(0, 1), fu.depth); ok {
				if m := pvFirstAttains(bg, vm, cs.Kind, fg, pv1[0], fu.depth, want); m != "" {
					return "follow-pv", fmt.Sprintf("halted at poll %d; follow-up search (depth %d at %v): %s", n, fu.depth, fu.root, m)
				}
			}
		}
	}
	return "", ""
}

func checkC12(c *harness.Check) {
	mustAnchors(c)
	c.Level = "fault_enumeration"
	c.Rule = "(sequential half) fault = cancellation observed at the n-th poll of the context. For every case (root x depth x {alpha-beta+static leaf, alpha-beta+captures-only quiescence} x {empty table, table warmed by a depth-1 search}, plus Minimax and the SARGON nested search without table; plus a family of pawn endings (kings fixed, two white pawns and one black pawn over a small set of squares, both sides to move) at depth 2 with quiescence, where a halt can land inside the quiescence search of a node's last and best move) the search is run once to count its N polls and then once for EVERY n in 1..N with the context cancelled from poll n on. Oracle: ErrHalted and no score; board snapshot unchanged; every ExactBound entry the halted search stored equals the reference value of its position at its depth; follow-up searches on the same table (same root same depth, depth+1, a child root) return the score they return on a table that never saw the halted search, with a principal variation. Engine level: on five roots (incl. checkmated, stalemated, claimable draw) a first analysis (depth 1, depth 2, practically unlimited) is ended by Halt / Move / TakeBack / Reset; the engine game is then the expected one and a second analysis starts and returns what a fresh engine with that game returns. distinct_nontrivial = distinct (case, number of entries left behind) outcomes"
	var cases []c12case
	roots := []searchRoot{ttRoots[0], ttRoots[2], ttRoots[3], ttRoots[4], ttRoots[7], ttRoots[8], ttRoots[11], {"R6k/8/6K1/8/8/8/8/8 b - - 0 1", nil, "net checkmated"}, {"7k/5Q2/6K1/8/8/8/8/8 b - - 0 1", nil, "net stalemate"}}
	if c.Thorough() {
		roots = append(roots, ttRoots[1], ttRoots[5], ttRoots[6], ttRoots[9], ttRoots[10])
	}
	for _, r := range roots {
		max := c.Pick(2, 3)
		if strings.Contains(r.Tags, "net") {
			max = c.Pick(3, 4)
		}
		for d := 1; d <= max; d++ {
			for _, kind := range []string{"static", "quiescence"} {
				for _, warmed := range []bool{false, true} {
					cases = append(cases, c12case{r, kind, d, warmed})
				}
			}
			if d <= 2 {
				cases = append(cases, c12case{r, "minimax", d, false}, c12case{r, "sargon", d, false})
			}
		}
	}
	// pawn endings with promotions and captures just beyond the horizon, quiescence at the leaves: the
	// halt can land INSIDE the quiescence search of a node's last and best move, whose made-up result
	// then meets a window that an earlier sibling has already narrowed (kings fixed, two white pawns
	// and one black pawn over a small set of squares, both sides to move; the first root is the
	// demonstration of seeded change C12i)
	pawnRoots := []string{"8/5P2/1P1k1p2/7K/8/8/8/8 b - - 0 1"}
	wp := []int{41, 53, 50, 33, 29} // b6 f7 c7 b5 f4
	bp := []int{45, 37, 42}         // f6 f5 c6
	for i := 0; i < len(wp); i++ {
		for j := i + 1; j < len(wp); j++ {
			for _, b := range bp {
				for _, white := range []bool{true, false} {
					p := &ref.Pos{EP: -1, White: white}
					p.Sq[39], p.Sq[43] = ref.K, -ref.K // Kh5, kd6
					p.Sq[wp[i]], p.Sq[wp[j]], p.Sq[b] = ref.P, ref.P, -ref.P
					if p.InCheck(!white) {
						continue // the side that has just moved may not be in check
					}
					pawnRoots = append(pawnRoots, p.FEN(0, 1))
				}
			}
		}
	}
	for i, f := range pawnRoots {
		if !c.Thorough() && i%2 == 1 && i > 0 {
			continue
		}
		r := searchRoot{FEN: f, Tags: "pawn ending"}
		cases = append(cases, c12case{r, "quiescence", 2, false}, c12case{r, "quiescence", 2, true})
	}
	type job struct {
		cs c12case
		n  int64
	}
	var jobs []job
	counts := make([]int64, len(cases))
	harness.Parallel(len(cases), func(i int) { counts[i] = countPolls(cases[i]) })
	for i, cs := range cases {
		for n := int64(1); n <= counts[i]; n++ {
			jobs = append(jobs, job{cs, n})
		}
		c.States.Add(counts[i])
	}
	c.SetExtra("cases", len(cases))
	c.SetExtra("cancellation_points", len(jobs))
	vm := newValueMemo(int64(c.Pick(3_000_000, 30_000_000)))
	var cc classCap
	ctx := context.Background()
	harness.Parallel(len(jobs), func(i int) {
		if c.Expired() {
			return
		}
		j := jobs[i]
		cls, msg := runC12(ctx, j.cs, j.n, vm)
		c.Evaluations.Add(1)
		c.Traces.Add(1)
		c.Transitions.Add(1)
		if msg != "" {
			c.Violation(cc.sig("C12/"+cls, fmt.Sprintf("%v poll=%d", j.cs, j.n)), msg+"\n    case: "+j.cs.String(), "C12/halt", map[string]any{"Case": j.cs, "N": j.n})
		}
		c.Distinct(fmt.Sprintf("%v@%d", j.cs, j.n))
	})
	c.Sample(map[string]any{"case": cases[0].String(), "polls": counts[0], "halt_at": "every n in 1..polls"})
	c.Sample(map[string]any{"case": cases[len(cases)-1].String(), "polls": counts[len(cases)-1]})
	// halting through the engine (Halt / Move / TakeBack / Reset end an analysis; the next one must start clean)
	engineHaltFamily(c)
	// the same property on RUNNING searches: real goroutines halted at any instant (interleaving half)
	embedInterleavings(c, "VERIF_MC", "mc", "C12")
	c.Sample(map[string]any{"interleaving_scenario": "Iterative.Launch on K v K with a table and a time control; halter and hard-limit timer as lazy threads", "oracle": "board back and table untouched from the moment Halt returns"})
	c.Finish()
}
