// Package seq holds the explicit-state (E1) checks: breadth-first / exhaustive enumeration of
// bounded spaces whose transitions call the real morlock functions, with the reference model
// run in lock-step as the oracle.
package seq

import (
	"encoding/json"
	"fmt"
	"os"
	"sort"
	"sync"

	"github.com/herohde/morlock/pkg/board"
	"verif/bridge"
	"verif/corpus"
	"verif/harness"
	"verif/ref"
)

// Registry of checks and replayers, filled by init functions.
var Checks = map[string]func(c *harness.Check){}
var Replayers = map[string]func(data json.RawMessage) (violated bool, msg string){}

// Node is one state of the lock-step walk: the implementation's position and the reference
// position reached by the same moves.
type Node struct {
	Pos  *board.Position
	Turn board.Color
	Ref  *ref.Pos
	Root string // seed FEN
	Path string // moves from the seed
}

func (n *Node) Where() string {
	if n.Path == "" {
		return n.Root
	}
	return n.Root + " moves" + n.Path
}

type nodeKey struct {
	pos  board.Position
	turn board.Color
}

func rootNode(f string) *Node {
	rp, _, _, err := ref.ParseFEN(f)
	if err != nil {
		panic(fmt.Sprintf("bad seed %q: %v", f, err))
	}
	pos, turn := bridge.FromRef(rp)
	return &Node{Pos: pos, Turn: turn, Ref: rp, Root: f}
}

func refNode(rp *ref.Pos) *Node {
	pos, turn := bridge.FromRef(rp)
	return &Node{Pos: pos, Turn: turn, Ref: rp, Root: rp.FEN(0, 1)}
}

func packMove(m board.Move) uint64 {
	return uint64(m.Type)<<40 | uint64(m.From)<<32 | uint64(m.To)<<24 | uint64(m.Piece)<<16 | uint64(m.Promotion)<<8 | uint64(m.Capture)
}

// implLegal returns the implementation's legal moves: pseudo-legal moves accepted by Move.
func implLegal(pos *board.Position, turn board.Color) []board.Move {
	var out []board.Move
	for _, m := range pos.PseudoLegalMoves(turn) {
		if _, ok := pos.Move(m); ok {
			out = append(out, m)
		}
	}
	return out
}

// commonMoves pairs up implementation and reference moves that agree completely; the walk
// continues along these only, so that a C01 defect does not make C02/C07 chase phantom states.
func commonMoves(n *Node) (impl []board.Move, refm []ref.Move) {
	want := map[uint64]ref.Move{}
	for _, m := range n.Ref.Legal() {
		want[packMove(bridge.Move(m))] = m
	}
	seen := map[uint64]bool{}
	for _, m := range implLegal(n.Pos, n.Turn) {
		k := packMove(m)
		if rm, ok := want[k]; ok && !seen[k] {
			seen[k] = true
			impl = append(impl, m)
			refm = append(refm, rm)
		}
	}
	return
}

func panicData(c *harness.Check) map[string]string {
	return map[string]string{"check": c.ID, "tier": c.Tier}
}

// Walk performs a breadth-first closure from the roots to the given depth, de-duplicated on the
// implementation's position value + side, calling visit on every node (in parallel within a
// level) and edge on every (node, move, successor) of non-final levels.
func Walk(c *harness.Check, roots []*Node, depth int, visit func(n *Node), edge func(n *Node, m board.Move, rm ref.Move, succ *Node)) {
	seen := map[nodeKey]bool{}
	var frontier []*Node
	for _, r := range roots {
		k := nodeKey{*r.Pos, r.Turn}
		if !seen[k] {
			seen[k] = true
			frontier = append(frontier, r)
		}
	}
	for d := 0; d <= depth && len(frontier) > 0; d++ {
		if c.Expired() {
			c.Note("deadline reached in walk at depth %d (frontier %d nodes not visited)", d, len(frontier))
			return
		}
		c.States.Add(int64(len(frontier)))
		const chunk = 64
		nchunks := (len(frontier) + chunk - 1) / chunk
		next := make([][]*Node, nchunks)
		last := d == depth
		harness.Parallel(nchunks, func(ci int) {
			if c.Expired() {
				return
			}
			lo, hi := ci*chunk, (ci+1)*chunk
			if hi > len(frontier) {
				hi = len(frontier)
			}
			for _, n := range frontier[lo:hi] {
				n := n
				c.Guard("panic", panicData(c), n.Where(), func() {
					if visit != nil {
						visit(n)
					}
					if last {
						return
					}
					im, rm := commonMoves(n)
					for i, m := range im {
						sp, ok := n.Pos.Move(m)
						if !ok {
							continue
						}
						succ := &Node{Pos: sp, Turn: n.Turn.Opponent(), Ref: n.Ref.Make(rm[i]), Root: n.Root, Path: n.Path + " " + bridge.Text(m)}
						c.Transitions.Add(1)
						if edge != nil {
							edge(n, m, rm[i], succ)
						}
						next[ci] = append(next[ci], succ)
					}
				})
			}
		})
		var nf []*Node
		for _, l := range next {
			for _, s := range l {
				k := nodeKey{*s.Pos, s.Turn}
				if !seen[k] {
					seen[k] = true
					nf = append(nf, s)
				}
			}
		}
		frontier = nf
	}
}

// WalkFlat visits a flat list of generated positions (systematic families) and their outgoing edges.
func WalkFlat(c *harness.Check, gen func(emit func(p *ref.Pos)), visit func(n *Node), edge func(n *Node, m board.Move, rm ref.Move, succ *Node)) {
	var batch []*ref.Pos
	flush := func() {
		if len(batch) == 0 {
			return
		}
		b := batch
		batch = nil
		c.States.Add(int64(len(b)))
		const chunk = 256
		nchunks := (len(b) + chunk - 1) / chunk
		harness.Parallel(nchunks, func(ci int) {
			if c.Expired() {
				return
			}
			lo, hi := ci*chunk, (ci+1)*chunk
			if hi > len(b) {
				hi = len(b)
			}
			for _, rp := range b[lo:hi] {
				rp := rp
				c.Guard("panic", panicData(c), rp.FEN(0, 1), func() {
					n := refNode(rp)
					if visit != nil {
						visit(n)
					}
					if edge == nil {
						return
					}
					im, rm := commonMoves(n)
					for i, m := range im {
						sp, ok := n.Pos.Move(m)
						if !ok {
							continue
						}
						c.Transitions.Add(1)
						edge(n, m, rm[i], &Node{Pos: sp, Turn: n.Turn.Opponent(), Ref: n.Ref.Make(rm[i]), Root: n.Root, Path: " " + bridge.Text(m)})
					}
				})
			}
		})
	}
	gen(func(p *ref.Pos) {
		batch = append(batch, p)
		if len(batch) >= 1<<16 {
			flush()
		}
	})
	flush()
}

// seedNodes converts corpus seeds.
func seedNodes(seeds []corpus.Seed) []*Node {
	var out []*Node
	for _, s := range seeds {
		out = append(out, rootNode(s.FEN))
	}
	return out
}

var anchorOnce sync.Once
var anchorErr error

// CheckRefAnchors asserts that the reference model reproduces published perft numbers (the
// anchor that keeps the oracle honest without reference to morlock). maxNodes bounds the work.
func CheckRefAnchors(maxNodes int64) error {
	anchorOnce.Do(func() {
		var mu sync.Mutex
		type job struct {
			fen  string
			d    int
			want int64
		}
		var jobs []job
		for _, a := range corpus.Perft {
			for d, want := range a.Counts {
				if want <= maxNodes {
					jobs = append(jobs, job{a.FEN, d + 1, want})
				}
			}
		}
		harness.Parallel(len(jobs), func(i int) {
			j := jobs[i]
			p, _, _, _ := ref.ParseFEN(j.fen)
			if got := p.Perft(j.d); got != j.want {
				mu.Lock()
				anchorErr = fmt.Errorf("reference perft(%d) of %q = %d, published %d", j.d, j.fen, got, j.want)
				mu.Unlock()
			}
		})
	})
	return anchorErr
}

func mustAnchors(c *harness.Check) {
	for _, s := range corpus.Seeds {
		rp, _, _, err := ref.ParseFEN(s.FEN)
		if err != nil || !corpus.Valid(rp) {
			fmt.Fprintln(os.Stderr, "HARNESS-ERROR: seed is not a well-formed position:", s.FEN)
			os.Exit(2)
		}
	}
	max := int64(200_000)
	if c.Thorough() {
		max = 5_000_000
	}
	if err := CheckRefAnchors(max); err != nil {
		fmt.Fprintln(os.Stderr, "HARNESS-ERROR:", err)
		os.Exit(2)
	}
	c.Assumptions = append(c.Assumptions, "reference move generator validated against published perft counts (start position, Kiwipete, CPW positions 3-6) in this run")
}

func sortedKeys(m map[uint64]bool) []uint64 {
	var out []uint64
	for k := range m {
		out = append(out, k)
	}
	sort.Slice(out, func(i, j int) bool { return out[i] < out[j] })
	return out
}
