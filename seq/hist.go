package seq

import (
	"fmt"
	"strings"
	"sync"

	"github.com/herohde/morlock/pkg/board"
	"verif/bridge"
	"verif/harness"
	"verif/ref"
)

// HistWalk enumerates every push sequence (over the moves the filter admits) to a depth on a
// real game board with the reference game in lock-step. forkAt >= 0 switches to a Fork() of
// the board when that depth is reached, so that the tail of every sequence is played on a
// forked board sharing the head.
type HistWalk struct {
	C      *harness.Check
	Root   string
	Seed   int64
	Filter func(g *ref.Game, m ref.Move) bool
	OnPush func(b *board.Board, g *ref.Game, path []string) // after every push
	OnPop  func(b *board.Board, g *ref.Game, path []string) // after every pop (nil: none)
	ForkAt int                                              // -1: never
	NoPop  bool                                             // rebuild the board for every path instead of popping (independent of take-back)
	Prefix []string                                         // moves played before the enumeration starts (sub-job of a split walk)
}

// Split cuts the walk into independent sub-walks, one per admitted path of length k, plus the
// walk restricted to depth k itself (returned first) so that no node is lost.
func (w *HistWalk) Split(k int) []*HistWalk {
	g, err := ref.GameFromFEN(w.Root)
	if err != nil {
		panic(err)
	}
	var out []*HistWalk
	var path []string
	var rec func(d int)
	rec = func(d int) {
		if d == k {
			sub := *w
			sub.Prefix = append([]string(nil), path...)
			out = append(out, &sub)
			return
		}
		any := false
		for _, rm := range g.Cur().Legal() {
			if w.Filter != nil && !w.Filter(g, rm) {
				continue
			}
			any = true
			g.Push(rm)
			path = append(path, rm.String())
			rec(d + 1)
			path = path[:len(path)-1]
			g.Pop()
		}
		if !any && d > 0 { // a line that ends early is its own sub-walk
			sub := *w
			sub.Prefix = append([]string(nil), path...)
			out = append(out, &sub)
		}
	}
	rec(0)
	return out
}

func findIn(pl []board.Move, text string) (board.Move, bool) {
	for _, m := range pl {
		if bridge.Text(m) == text {
			return m, true
		}
	}
	return board.Move{}, false
}

// Run enumerates to the given total depth (prefix included). Nodes inside the prefix are
// checked by the sub-walk whose prefix is lexicographically first through them... they are
// simply re-checked by every sub-walk (cheap, and the evidence counts them once via States
// only for the first child).
func (w *HistWalk) Run(depth int) {
	g, err := ref.GameFromFEN(w.Root)
	if err != nil {
		panic(err)
	}
	b := bridge.NewBoard(w.Root, w.Seed)
	var path []string
	for i, t := range w.Prefix {
		if w.ForkAt == i {
			b = b.Fork()
		}
		rm, ok := g.Cur().FindMove(t)
		m, ok2 := bridge.FindImpl(b.Position(), b.Turn(), t)
		if !ok || !ok2 || !b.PushMove(m) {
			w.C.Violation(fmt.Sprintf("%s/push-rejected %s %s", w.C.ID, w.Root, strings.Join(w.Prefix[:i+1], " ")), "a legal move was rejected by PushMove", "note", nil)
			return
		}
		g.Push(rm)
		path = append(path, t)
		w.OnPush(b, g, path)
	}
	var rec func(b *board.Board, d int)
	rec = func(b *board.Board, d int) {
		if d >= depth || w.C.Expired() {
			w.C.Traces.Add(1)
			return
		}
		if w.ForkAt == d {
			b = b.Fork()
		}
		any := false
		var pl []board.Move
		if !w.NoPop {
			pl = b.Position().PseudoLegalMoves(b.Turn())
		}
		for _, rm := range g.Cur().Legal() {
			if w.Filter != nil && !w.Filter(g, rm) {
				continue
			}
			cur := b
			if w.NoPop {
				cur = bridge.NewBoard(w.Root, w.Seed)
				for _, t := range path {
					m, _ := bridge.FindImpl(cur.Position(), cur.Turn(), t)
					cur.PushMove(m)
				}
				pl = cur.Position().PseudoLegalMoves(cur.Turn())
			}
			m, ok := findIn(pl, rm.String())
			if !ok || !cur.PushMove(m) {
				w.C.Violation(fmt.Sprintf("%s/push-rejected %s %s", w.C.ID, w.Root, strings.Join(append(path, rm.String()), " ")),
					"a legal move was rejected by PushMove", "note", nil)
				continue
			}
			any = true
			w.C.Transitions.Add(1)
			g.Push(rm)
			path = append(path, rm.String())
			w.OnPush(cur, g, path)
			rec(cur, d+1)
			path = path[:len(path)-1]
			g.Pop()
			if !w.NoPop {
				cur.PopMove()
				w.C.Transitions.Add(1)
				if w.OnPop != nil {
					w.OnPop(cur, g, path)
				}
			}
		}
		if !any {
			w.C.Traces.Add(1)
		}
	}
	rec(b, len(w.Prefix))
}

// classCap limits the number of full signatures per class of failure so that a systematic
// defect produces a handful of artefacts, not thousands.
type classCap struct {
	mu sync.Mutex
	n  map[string]int
}

func (cc *classCap) sig(class, full string) string {
	cc.mu.Lock()
	defer cc.mu.Unlock()
	if cc.n == nil {
		cc.n = map[string]int{}
	}
	cc.n[class]++
	if cc.n[class] > 4 {
		return class + " (further instances)"
	}
	return class + " " + full
}
