// Package explore is the stateless, deviation-bounded depth-first explorer over the schedules of
// the real goroutines (running on the shim scheduler of package vs).
//
// Cost model (delay bounding): the scheduler is deterministic; every departure from its own
// choice - a preemption, a different thread at a blocking point, a non-first ready select arm,
// a non-default environment answer - costs 1. Bound 0 is exactly one execution; every
// execution runs to completion (or to the scenario's step horizon).
package explore

import (
	"encoding/json"
	"sort"
	"time"

	"verif/vs"
)

// Outcome is the verdict of one complete execution.
type Outcome struct {
	Class        string // canonical description of what was observed (outcome equivalence class)
	Violation    string // canonical violation signature, "" if the property held
	Msg          string
	Inconclusive bool // cut by the horizon before an "eventually" clause could be decided
	Diverged     bool // the replayed prefix did not reproduce (see RunOnce)
}

// Scenario is a closed system: Build returns the main harness thread, an optional observer
// that runs between steps (not a thread) and the verdict function.
type Scenario struct {
	Spec         Spec
	Horizon      int
	EnvSince     bool
	TimerRelease int
	DelayThread  int // 0 = none (the main harness thread is never delayed)
	DelayUntil   int
	ChanCap      int // > 0: buffered channels of the code under test are scaled down to this capacity
	Build        func() (main func(), observer func(step int), verdict func(s *vs.Sched) Outcome)
}

// Spec names a scenario so that a replay can rebuild it.
type Spec struct {
	Kind   string          `json:"kind"`
	Params json.RawMessage `json:"params"`
}

func (s Spec) String() string { return s.Kind + string(s.Params) }

// Found is a violating execution.
type Found struct {
	Spec      Spec     `json:"spec"`
	Choices   []int    `json:"choices"`
	Violation string   `json:"violation"`
	Msg       string   `json:"msg"`
	Events    []string `json:"events,omitempty"`
	Promoted  []string `json:"promoted,omitempty"` // access sites that were scheduling points in this run
}

type Stats struct {
	Executions   int64            `json:"executions"`
	Steps        int64            `json:"steps"`
	Points       int64            `json:"points"`       // scheduling points beyond replayed prefixes = nodes of the schedule tree
	Met          int64            `json:"met"`          // executions in which two threads touched a common object
	Inconclusive int64            `json:"inconclusive"` // horizon-cut executions
	Pruned       int64            `json:"pruned"`       // alternatives not taken because of the bound (0 = every interleaving was explored)
	Capped       bool             `json:"capped"`       // a deadline stopped the enumeration of some scenario
	MaxSteps     int              `json:"max_steps"`
	Outcomes     map[string]int64 `json:"outcomes"` // outcome class -> count (over executions where threads met)
	Found        []Found          `json:"found"`
	BoundDone    int              `json:"bound_done"` // largest bound completed for every scenario explored
	Races        map[string]int64 `json:"races"`      // unordered conflicting plain accesses -> executions showing them
	Accesses     int64            `json:"accesses"`   // instrumented plain accesses checked against the clocks
	DoneAt       map[string]int64 `json:"done_at"`    // "bound=k" / "all interleavings" -> scenarios explored exactly that far
	Diverged     int64            `json:"diverged"`   // executions whose replayed prefix did not reproduce (set aside)
	Focused      int64            `json:"focused"`    // executions of the race-directed phase
	FocusedScen  int64            `json:"focused_scenarios"`
}

func NewStats() *Stats {
	return &Stats{Outcomes: map[string]int64{}, Races: map[string]int64{}, DoneAt: map[string]int64{}, BoundDone: -1}
}

func (a *Stats) Merge(b *Stats) {
	a.Executions += b.Executions
	a.Steps += b.Steps
	a.Points += b.Points
	a.Met += b.Met
	a.Inconclusive += b.Inconclusive
	a.Pruned += b.Pruned
	a.Capped = a.Capped || b.Capped
	if b.MaxSteps > a.MaxSteps {
		a.MaxSteps = b.MaxSteps
	}
	for k, v := range b.Outcomes {
		a.Outcomes[k] += v
	}
	a.Found = append(a.Found, b.Found...)
	a.Accesses += b.Accesses
	a.Focused += b.Focused
	a.Diverged += b.Diverged
	a.FocusedScen += b.FocusedScen
	for k, v := range b.Races {
		a.Races[k] += v
	}
	for k, v := range b.DoneAt {
		a.DoneAt[k] += v
	}
}

// PromotedSites lists vs.Promoted in canonical order.
func PromotedSites() []string {
	var out []string
	for k := range vs.Promoted {
		out = append(out, k)
	}
	sort.Strings(out)
	return out
}

// SetPromoted replaces vs.Promoted.
func SetPromoted(sites []string) {
	vs.Promoted = map[string]bool{}
	for _, s := range sites {
		if s != "" {
			vs.Promoted[s] = true
		}
	}
}

type Explorer struct {
	// Focus: race-directed exploration. Deviations are only taken where they can matter to a known
	// data race - at a point where some thread is at, or the running thread has just made, a plain
	// access at a racing site - or to run a lazy thread (an event that may come at any instant).
	// Within that restriction the enumeration is complete up to Bound.
	Focus    bool
	Bound    int
	Deadline time.Time
	Stats    *Stats
	seen     map[string]bool // violation signatures already recorded for the current scenario
	capped   bool
}

// RunOnce executes one schedule of a scenario.
func RunOnce(sc Scenario, prefix []int) (*vs.Sched, Outcome) {
	main, obs, verdict := sc.Build()
	vs.TimerRelease = sc.TimerRelease
	vs.ChanCap = sc.ChanCap
	vs.DelayThread, vs.DelayUntil = -1, 0
	if sc.DelayThread > 0 {
		vs.DelayThread, vs.DelayUntil = sc.DelayThread, sc.DelayUntil
	}
	s := vs.Run(main, prefix, sc.Horizon, sc.EnvSince, obs)
	if s.Diverged {
		// The same choices did not lead to the same scheduling points: something the scheduler does
		// not own differs between two executions (state the code under test carries from one run to
		// the next - package-level or pooled -, real time, randomness). Never a verdict: the
		// execution is set aside and counted.
		return s, Outcome{Class: "diverged", Inconclusive: true, Diverged: true}
	}
	return s, verdict(s)
}

func (e *Explorer) run(sc Scenario, prefix []int) *vs.Sched {
	s, o := RunOnce(sc, prefix)
	st := e.Stats
	st.Executions++
	st.Steps += int64(s.Steps)
	if s.Steps > st.MaxSteps {
		st.MaxSteps = s.Steps
	}
	if o.Diverged {
		st.Diverged++
		s.Trace = s.Trace[:0] // nothing below this execution can be trusted: do not branch from it
		return s
	}
	if o.Inconclusive {
		st.Inconclusive++
	}
	st.Accesses += s.Accesses()
	for _, r := range s.Races() {
		if len(st.Races) < 200 {
			st.Races[r.String()]++
		}
	}
	if s.Met {
		st.Met++
		if len(st.Outcomes) < 5000 {
			st.Outcomes[o.Class]++
		}
	}
	if o.Violation != "" && !e.seen[o.Violation] {
		e.seen[o.Violation] = true
		if len(st.Found) < 200 {
			ev := s.Events
			if len(ev) > 60 {
				ev = ev[len(ev)-60:]
			}
			st.Found = append(st.Found, Found{Spec: sc.Spec, Choices: s.Choices(), Violation: o.Violation, Msg: o.Msg, Events: ev, Promoted: PromotedSites()})
		}
	}
	return s
}

func (e *Explorer) explore(sc Scenario, prefix []int, used int) {
	if e.capped || (!e.Deadline.IsZero() && time.Now().After(e.Deadline)) {
		e.capped = true
		return
	}
	s := e.run(sc, prefix)
	trace := s.Trace
	for i := len(prefix); i < len(trace); i++ {
		e.Stats.Points++
		if used+1 > e.Bound {
			e.Stats.Pruned += int64(trace[i].N - 1)
			continue
		}
		for alt := 1; alt < trace[i].N; alt++ {
			if e.Focus && trace[i].Kind == 't' && !trace[i].Hot && alt < trace[i].Lazy {
				e.Stats.Pruned++
				continue
			}
			np := make([]int, i+1)
			for j := 0; j < i; j++ {
				np[j] = trace[j].Choice
			}
			np[i] = alt
			e.explore(sc, np, used+1)
		}
	}
}

// Explore enumerates every schedule of the scenario within the bound. Returns false if the
// deadline cut the enumeration.
func (e *Explorer) Explore(sc Scenario) bool {
	e.seen = map[string]bool{}
	e.capped = false
	e.explore(sc, nil, 0)
	if e.capped {
		e.Stats.Capped = true
	}
	return !e.capped
}
