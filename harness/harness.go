// Package harness holds what every check shares: counters, evidence files, violation
// artefacts, the known-findings file and the exit-code protocol.
package harness

import (
	"bufio"
	"encoding/json"
	"fmt"
	"os"
	"path/filepath"
	"regexp"
	"runtime"
	"sort"
	"strconv"
	"strings"
	"sync"
	"sync/atomic"
	"time"
)

// Root returns the /verif directory.
func Root() string {
	if r := os.Getenv("VERIF_ROOT"); r != "" {
		return r
	}
	return "/verif"
}

// OutDir is where evidence and replay artefacts go (VERIF_OUT for experiments on scratch trees).
func OutDir() string {
	if r := os.Getenv("VERIF_OUT"); r != "" {
		return r
	}
	return Root()
}

type Violation struct {
	Sig    string `json:"sig"`
	Msg    string `json:"msg"`
	Replay string `json:"replay"`
	Count  int    `json:"count"`
}

type known struct {
	re   *regexp.Regexp
	text string
	hit  int
}

// Check accumulates what one run of one property's check covered.
type Check struct {
	ID     string
	Tier   string
	Seed   int64
	Level  string // evidence level, default model_checking
	Engine string // "seq" or "mc"

	States      atomic.Int64 // distinct states / scheduling points reached
	Transitions atomic.Int64 // real-implementation transitions / scheduler steps executed
	Traces      atomic.Int64 // complete traces / executions / inputs run on the real implementation
	Evaluations atomic.Int64 // oracle evaluations

	Rule        string
	Assumptions []string
	Exhaustive  bool
	Extra       map[string]any

	mu        sync.Mutex
	distinct  map[string]struct{}
	samples   []any
	viol      map[string]*Violation
	violOrder []string
	known     []*known
	start     time.Time
	deadline  time.Time
	expired   atomic.Bool
	notes     []string
}

func New(id, tier, engine string) *Check {
	c := &Check{ID: id, Tier: tier, Engine: engine, Level: "model_checking", Exhaustive: true,
		Extra: map[string]any{}, distinct: map[string]struct{}{}, viol: map[string]*Violation{}, start: time.Now()}
	if s := os.Getenv("VERIF_SEED"); s != "" {
		c.Seed, _ = strconv.ParseInt(s, 10, 64)
	}
	// Internal deadline: a run that hits it exits 0 with exhaustive=false and reports what was completed.
	secs := 240.0
	if tier == "thorough" {
		secs = 3000
	}
	if s := os.Getenv("VERIF_DEADLINE_S"); s != "" {
		if v, err := strconv.ParseFloat(s, 64); err == nil {
			secs = v
		}
	}
	c.deadline = c.start.Add(time.Duration(secs * float64(time.Second)))
	c.loadKnown()
	current = c
	return c
}

// current is the check of this process (one per process): where a panic inside Parallel goes.
var current *Check

// PanicSig renders a panic as a stable signature: the innermost frame inside morlock and the error.
func PanicSig(r any, stack string) string {
	where := "?"
	lines := strings.Split(stack, "\n")
	for _, l := range lines {
		if strings.HasPrefix(l, "github.com/herohde/morlock/") {
			where = strings.TrimPrefix(l, "github.com/herohde/morlock/")
			if i := strings.LastIndex(where, "("); i > 0 {
				where = where[:i]
			}
			break
		}
	}
	return fmt.Sprintf("panic in %s: %v", where, r)
}

// Guard runs f; a panic inside it becomes a violation of the check (the code under test must not
// crash on the inputs of a check) instead of the death of the checker.
func (c *Check) Guard(kind string, data any, where string, f func()) {
	defer func() {
		if r := recover(); r != nil {
			buf := make([]byte, 8192)
			stack := string(buf[:runtime.Stack(buf, false)])
			c.Violation(c.ID+"/"+PanicSig(r, stack), fmt.Sprintf("%v at %s\n%s", r, where, stack), kind, data)
		}
	}()
	f()
}

func (c *Check) Thorough() bool { return c.Tier == "thorough" }

// Pick returns q for the quick tier and t for the thorough tier.
func (c *Check) Pick(q, t int) int {
	if c.Thorough() {
		return t
	}
	return q
}

// Expired reports whether the internal deadline has passed; the first caller to see it marks the
// run as non-exhaustive.
func (c *Check) Expired() bool {
	if c.expired.Load() {
		return true
	}
	if time.Now().After(c.deadline) {
		c.expired.Store(true)
		c.mu.Lock()
		c.Exhaustive = false
		c.mu.Unlock()
		return true
	}
	return false
}

func (c *Check) Note(format string, args ...any) {
	c.mu.Lock()
	c.notes = append(c.notes, fmt.Sprintf(format, args...))
	c.mu.Unlock()
}

func (c *Check) SetExtra(k string, v any) {
	c.mu.Lock()
	c.Extra[k] = v
	c.mu.Unlock()
}

func (c *Check) AddExtra(k string, n int64) {
	c.mu.Lock()
	cur, _ := c.Extra[k].(int64)
	c.Extra[k] = cur + n
	c.mu.Unlock()
}

// Distinct records one non-trivial case under a canonical key; the evidence reports how many
// different keys were seen.
func (c *Check) Distinct(key string) {
	c.mu.Lock()
	c.distinct[key] = struct{}{}
	c.mu.Unlock()
}

func (c *Check) DistinctCount() int {
	c.mu.Lock()
	defer c.mu.Unlock()
	return len(c.distinct)
}

// Sample keeps the first few cases verbatim for the evidence file.
func (c *Check) Sample(v any) {
	c.mu.Lock()
	if len(c.samples) < 6 {
		c.samples = append(c.samples, v)
	}
	c.mu.Unlock()
}

func (c *Check) NumViolations() int {
	c.mu.Lock()
	defer c.mu.Unlock()
	return len(c.viol)
}

// Violation records a failure. sig is a canonical signature (failing input / op list / script +
// schedule class), used for de-duplication and for matching known findings; replay is the
// JSON-serialisable artefact that `./run replay` re-executes.
func (c *Check) Violation(sig, msg string, kind string, data any) {
	c.ViolationEngine(c.Engine, sig, msg, kind, data)
}

// Has reports whether a violation with that signature has been recorded (replay of sequential parts).
func (c *Check) Has(sig string) (string, bool) {
	c.mu.Lock()
	defer c.mu.Unlock()
	if v, ok := c.viol[sig]; ok {
		return v.Msg, true
	}
	return "", false
}

// ViolationEngine is Violation for an artefact that another binary replays.
func (c *Check) ViolationEngine(engine, sig, msg string, kind string, data any) {
	c.mu.Lock()
	defer c.mu.Unlock()
	if v, ok := c.viol[sig]; ok {
		v.Count++
		return
	}
	for _, k := range c.known {
		if k.re.MatchString(sig) {
			k.hit++
			return
		}
	}
	v := &Violation{Sig: sig, Msg: msg, Count: 1}
	c.viol[sig] = v
	c.violOrder = append(c.violOrder, sig)
	if len(c.viol) <= 40 {
		dir := filepath.Join(OutDir(), "replays")
		_ = os.MkdirAll(dir, 0o755)
		name := fmt.Sprintf("%s-%s-%03d.json", c.ID, c.Tier, len(c.viol))
		v.Replay = filepath.Join(dir, name)
		js, _ := json.MarshalIndent(map[string]any{"property": c.ID, "engine": engine, "kind": kind, "sig": sig, "msg": msg, "data": data}, "", " ")
		_ = os.WriteFile(v.Replay, js, 0o644)
	}
}

func (c *Check) loadKnown() {
	f, err := os.Open(filepath.Join(Root(), "known_findings.txt"))
	if err != nil {
		return
	}
	defer f.Close()
	sc := bufio.NewScanner(f)
	for sc.Scan() {
		line := strings.TrimSpace(sc.Text())
		if !strings.HasPrefix(line, "known:") {
			continue // comments and "fixed:" lines suppress nothing
		}
		fs := strings.Fields(strings.TrimPrefix(line, "known:"))
		if len(fs) < 2 || fs[0] != "property="+c.ID || !strings.HasPrefix(fs[1], "sig=") {
			continue
		}
		re, err := regexp.Compile(strings.TrimPrefix(fs[1], "sig="))
		if err != nil {
			fmt.Fprintf(os.Stderr, "HARNESS-ERROR: bad known-finding regexp %q: %v\n", fs[1], err)
			os.Exit(2)
		}
		c.known = append(c.known, &known{re: re, text: strings.Join(fs[2:], " ")})
	}
}

// Finish writes the evidence file, prints the result lines and exits with the protocol's code.
func (c *Check) Finish() {
	wall := time.Since(c.start).Seconds()
	c.mu.Lock()
	cov := map[string]any{
		"states":                        c.States.Load(),
		"transitions":                   c.Transitions.Load(),
		"traces_validated_against_impl": c.Traces.Load(),
		"evaluations":                   c.Evaluations.Load(),
		"distinct_nontrivial":           len(c.distinct),
		"rule":                          c.Rule,
		"samples":                       c.samples,
		"exhaustive":                    c.Exhaustive,
	}
	for k, v := range c.Extra {
		cov[k] = v
	}
	if len(c.notes) > 0 {
		cov["notes"] = c.notes
	}
	if len(c.samples) == 0 {
		cov["samples"] = []any{"(no case was generated)"}
	}
	var knownHit []string
	for _, k := range c.known {
		if k.hit > 0 {
			knownHit = append(knownHit, fmt.Sprintf("%s (x%d)", k.text, k.hit))
		}
	}
	if len(knownHit) > 0 {
		cov["known_findings_hit"] = knownHit
	}
	var vs []*Violation
	for _, s := range c.violOrder {
		vs = append(vs, c.viol[s])
	}
	if len(vs) > 0 {
		cov["violation_signatures"] = vs
	}
	if c.Assumptions == nil {
		c.Assumptions = []string{}
	}
	ev := map[string]any{
		"property_id": c.ID,
		"tier":        c.Tier,
		"seed":        c.Seed,
		"level":       c.Level,
		"coverage":    cov,
		"assumptions": c.Assumptions,
		"wall_s":      wall,
		"violations":  len(vs),
	}
	c.mu.Unlock()
	js, _ := json.MarshalIndent(ev, "", " ")
	dir := filepath.Join(OutDir(), "evidence")
	_ = os.MkdirAll(dir, 0o755)
	if err := os.WriteFile(filepath.Join(dir, c.ID+".json"), append(js, '\n'), 0o644); err != nil {
		fmt.Fprintln(os.Stderr, "HARNESS-ERROR: cannot write evidence:", err)
		os.Exit(2)
	}
	fmt.Printf("%s %s: states=%d transitions=%d traces=%d evaluations=%d distinct=%d exhaustive=%v wall=%.1fs\n",
		c.ID, c.Tier, c.States.Load(), c.Transitions.Load(), c.Traces.Load(), c.Evaluations.Load(), len(c.distinct), c.Exhaustive, wall)
	keys := make([]string, 0, len(c.Extra))
	for k := range c.Extra {
		keys = append(keys, k)
	}
	sort.Strings(keys)
	for _, k := range keys {
		fmt.Printf("  %s = %v\n", k, c.Extra[k])
	}
	for _, n := range c.notes {
		fmt.Println("  note:", n)
	}
	for _, k := range c.known {
		if k.hit > 0 {
			fmt.Printf("KNOWN-FINDING: property=%s %s\n", c.ID, k.text)
		}
	}
	for i, v := range vs {
		if i < 25 {
			fmt.Printf("VIOLATION property=%s replay=%s\n    sig: %s\n    %s (x%d)\n", c.ID, v.Replay, v.Sig, v.Msg, v.Count)
		}
	}
	if len(vs) > 25 {
		fmt.Printf("  ... and %d more violation signatures (see evidence)\n", len(vs)-25)
	}
	if len(vs) > 0 {
		os.Exit(1)
	}
	os.Exit(0)
}

// Parallel runs fn(i) for i in [0,n) on all cores. fn must be safe for concurrent use.
func Parallel(n int, fn func(i int)) {
	workers := runtime.NumCPU()
	if w := os.Getenv("VERIF_WORKERS"); w != "" {
		if v, err := strconv.Atoi(w); err == nil && v > 0 {
			workers = v
		}
	}
	if workers > n {
		workers = n
	}
	var next atomic.Int64
	var wg sync.WaitGroup
	for w := 0; w < workers; w++ {
		wg.Add(1)
		go func() {
			defer wg.Done()
			for {
				i := int(next.Add(1)) - 1
				if i >= n {
					return
				}
				if current == nil {
					fn(i)
				} else {
					// the net under every targeted guard: replaying re-runs the check
					current.Guard("panic", map[string]string{"check": current.ID, "tier": current.Tier}, fmt.Sprintf("parallel item %d of %d", i, n), func() { fn(i) })
				}
			}
		}()
	}
	wg.Wait()
}

// ReplayFile is the on-disk form of a violation artefact.
type ReplayFile struct {
	Property string          `json:"property"`
	Engine   string          `json:"engine"`
	Kind     string          `json:"kind"`
	Sig      string          `json:"sig"`
	Msg      string          `json:"msg"`
	Data     json.RawMessage `json:"data"`
}

func LoadReplay(path string) (*ReplayFile, error) {
	b, err := os.ReadFile(path)
	if err != nil {
		return nil, err
	}
	var r ReplayFile
	if err := json.Unmarshal(b, &r); err != nil {
		return nil, err
	}
	return &r, nil
}
