package main

import (
	"fmt"
	"go/ast"
	"go/token"
	"go/types"
	"path/filepath"
	"strconv"
)

// The access pass wraps the plain memory accesses of a file for the happens-before race
// detector of package vs (see vs/hb.go):
//
//	x.f, s[i], *p, captured-and-reassigned locals, reassigned package variables
//	    as a value    -> (*vs.R(&x.f, "file.go:12"))
//	    assigned to   -> (*vs.W(&x.f, "file.go:13")) = v
//	m[k]              -> vs.MR(m, site)[k]   /   vs.MW(m, site)[k] = v,  delete(vs.MW(m, site), k)
//
// Taking the address in place of the value keeps evaluation order, side effects and nil
// dereference panics exactly where they were. What is NOT wrapped: operands of & (no access),
// receivers of pointer methods, values of the sync and sync/atomic types, anything the type
// checker could not type (left alone rather than guessed at), non-addressable values.
type accessPass struct {
	fset    *token.FileSet
	info    *types.Info
	instr   map[types.Object]bool
	pkgOnly bool // hot sequential packages: only memory inside reassigned package variables
	n       int
}

// inPkgVar reports whether e lives inside a watched package variable (reached without following
// a pointer or indexing a slice).
func (a *accessPass) inPkgVar(e ast.Expr) bool {
	for {
		switch n := e.(type) {
		case *ast.ParenExpr:
			e = n.X
		case *ast.SelectorExpr:
			sel := a.info.Selections[n]
			if sel == nil || sel.Kind() != types.FieldVal || sel.Indirect() || isPointer(a.typeOf(n.X)) {
				return false
			}
			e = n.X
		case *ast.IndexExpr:
			if _, ok := under(a.typeOf(n.X)).(*types.Array); !ok {
				return false
			}
			e = n.X
		case *ast.Ident:
			v, ok := a.info.Uses[n].(*types.Var)
			return ok && !v.IsField() && v.Pkg() != nil && v.Parent() == v.Pkg().Scope() && a.instr[v]
		default:
			return false
		}
	}
}

// analyseIdents finds the plain variables worth watching: package variables assigned outside
// init and their declaration, and local variables that a function literal captures and that are
// assigned again after their declaration.
func analyseIdents(files []*ast.File, info *types.Info, pkg *types.Package) map[types.Object]bool {
	mutated := map[types.Object]bool{}
	captured := map[types.Object]bool{}
	obj := func(e ast.Expr) types.Object {
		// the variable an assignment to e (x, x.f, x.a[i].g ...) modifies in place
	loop:
		for {
			switch n := e.(type) {
			case *ast.ParenExpr:
				e = n.X
			case *ast.SelectorExpr:
				sel := info.Selections[n]
				if sel == nil || sel.Kind() != types.FieldVal || sel.Indirect() {
					return nil
				}
				if tv, ok := info.Types[n.X]; ok && isPointer(tv.Type) {
					return nil
				}
				e = n.X
			case *ast.IndexExpr:
				tv, ok := info.Types[n.X]
				if !ok {
					return nil
				}
				if _, isArr := under(tv.Type).(*types.Array); !isArr {
					return nil
				}
				e = n.X
			default:
				break loop
			}
		}
		id, ok := e.(*ast.Ident)
		if !ok {
			return nil
		}
		if o := info.Uses[id]; o != nil {
			return o
		}
		return nil
	}
	for _, f := range files {
		for _, d := range f.Decls {
			fd, ok := d.(*ast.FuncDecl)
			if !ok || fd.Body == nil {
				continue
			}
			inInit := fd.Recv == nil && fd.Name.Name == "init"
			mark := func(e ast.Expr) {
				o := obj(e)
				v, ok := o.(*types.Var)
				if !ok || v.IsField() {
					return
				}
				if pkg != nil && v.Parent() == pkg.Scope() && inInit {
					return
				}
				mutated[o] = true
			}
			var lits []*ast.FuncLit
			ast.Inspect(fd.Body, func(n ast.Node) bool {
				switch n := n.(type) {
				case *ast.AssignStmt:
					for _, l := range n.Lhs {
						mark(l) // for := only the already declared names resolve through Uses
					}
				case *ast.IncDecStmt:
					mark(n.X)
				case *ast.UnaryExpr:
					if n.Op == token.AND {
						mark(n.X)
					}
				case *ast.RangeStmt:
					if n.Tok == token.ASSIGN {
						if n.Key != nil {
							mark(n.Key)
						}
						if n.Value != nil {
							mark(n.Value)
						}
					}
				case *ast.FuncLit:
					lits = append(lits, n)
				}
				return true
			})
			for _, lit := range lits {
				ast.Inspect(lit.Body, func(n ast.Node) bool {
					id, ok := n.(*ast.Ident)
					if !ok {
						return true
					}
					v, ok := info.Uses[id].(*types.Var)
					if !ok || v.IsField() || (pkg != nil && v.Parent() == pkg.Scope()) || v.Pkg() != pkg {
						return true
					}
					if v.Pos() < lit.Pos() || v.Pos() > lit.End() {
						captured[v] = true
					}
					return true
				})
			}
		}
	}
	out := map[types.Object]bool{}
	for o := range mutated {
		v := o.(*types.Var)
		if pkg != nil && v.Parent() == pkg.Scope() {
			if v.Pkg() == pkg {
				out[o] = true
			}
		} else if captured[o] {
			out[o] = true
		}
	}
	return out
}

func (a *accessPass) site(n ast.Node) ast.Expr {
	p := a.fset.Position(n.Pos())
	return &ast.BasicLit{Kind: token.STRING, Value: strconv.Quote(fmt.Sprintf("%s:%d", filepath.Base(p.Filename), p.Line))}
}

func (a *accessPass) typeOf(e ast.Expr) types.Type {
	if tv, ok := a.info.Types[e]; ok {
		return tv.Type
	}
	if id, ok := e.(*ast.Ident); ok {
		if o := a.info.Uses[id]; o != nil {
			return o.Type()
		}
	}
	return nil
}

func (a *accessPass) isType(e ast.Expr) bool {
	if tv, ok := a.info.Types[e]; ok {
		return tv.IsType()
	}
	if id, ok := e.(*ast.Ident); ok {
		_, isTypeName := a.info.Uses[id].(*types.TypeName)
		return isTypeName
	}
	return false
}

func under(t types.Type) types.Type {
	if t == nil {
		return nil
	}
	return t.Underlying()
}

func isPointer(t types.Type) bool { _, ok := under(t).(*types.Pointer); return ok }

func syncType(t types.Type) bool {
	for {
		p, ok := t.(*types.Pointer)
		if !ok {
			break
		}
		t = p.Elem()
	}
	n, ok := t.(*types.Named)
	if !ok || n.Obj().Pkg() == nil {
		return false
	}
	switch n.Obj().Pkg().Path() {
	case "sync", "sync/atomic", "verif/vs":
		return true
	}
	return false
}

func (a *accessPass) field(e *ast.SelectorExpr) bool {
	s := a.info.Selections[e]
	return s != nil && s.Kind() == types.FieldVal
}

func (a *accessPass) addressable(e ast.Expr) bool {
	switch e := e.(type) {
	case *ast.ParenExpr:
		return a.addressable(e.X)
	case *ast.Ident:
		v, ok := a.info.Uses[e].(*types.Var)
		return ok && !v.IsField()
	case *ast.SelectorExpr:
		if !a.field(e) {
			return false
		}
		if a.info.Selections[e].Indirect() || isPointer(a.typeOf(e.X)) {
			return true
		}
		return a.addressable(e.X)
	case *ast.IndexExpr:
		switch t := under(a.typeOf(e.X)).(type) {
		case *types.Slice:
			return true
		case *types.Pointer:
			_, ok := under(t.Elem()).(*types.Array)
			return ok
		case *types.Array:
			return a.addressable(e.X)
		}
		return false
	case *ast.StarExpr:
		return !a.isType(e) && a.typeOf(e.X) != nil
	}
	return false
}

// private reports whether e lives inside a local variable that no function literal captures
// (reached without following a pointer or indexing a slice): no other goroutine can see it.
func (a *accessPass) private(e ast.Expr) bool {
	for {
		switch n := e.(type) {
		case *ast.ParenExpr:
			e = n.X
		case *ast.SelectorExpr:
			sel := a.info.Selections[n]
			if sel == nil || sel.Kind() != types.FieldVal || sel.Indirect() || isPointer(a.typeOf(n.X)) {
				return false
			}
			e = n.X
		case *ast.IndexExpr:
			if _, ok := under(a.typeOf(n.X)).(*types.Array); !ok {
				return false
			}
			e = n.X
		case *ast.Ident:
			v, ok := a.info.Uses[n].(*types.Var)
			if !ok || v.IsField() || v.Pkg() == nil || v.Parent() == v.Pkg().Scope() {
				return false
			}
			return !a.instr[v]
		default:
			return false
		}
	}
}

func (a *accessPass) wrap(e ast.Expr, orig ast.Expr, store bool) ast.Expr {
	t := a.typeOf(orig)
	if t == nil || syncType(t) || a.private(orig) || (a.pkgOnly && !a.inPkgVar(orig)) {
		return e
	}
	if b, ok := under(t).(*types.Basic); ok && b.Info()&types.IsUntyped != 0 {
		return e
	}
	name := "R"
	if store {
		name = "W"
	}
	a.n++
	out := &ast.ParenExpr{X: &ast.StarExpr{X: call(name, &ast.UnaryExpr{Op: token.AND, X: e}, a.site(orig))}}
	if tv, ok := a.info.Types[orig]; ok {
		a.info.Types[out] = tv
	} else {
		a.info.Types[out] = types.TypeAndValue{Type: t}
	}
	return out
}

func (a *accessPass) mapWrap(m ast.Expr, at ast.Node, store bool) ast.Expr {
	if a.pkgOnly {
		return m
	}
	name := "MR"
	if store {
		name = "MW"
	}
	a.n++
	out := call(name, m, a.site(at))
	if tv, ok := a.info.Types[m]; ok {
		a.info.Types[out] = tv
	}
	return out
}

// place: e is used for its address; the loads needed to compute it are wrapped, e itself is not.
func (a *accessPass) place(e ast.Expr) ast.Expr {
	switch n := e.(type) {
	case *ast.ParenExpr:
		n.X = a.place(n.X)
		return n
	case *ast.Ident:
		return n
	case *ast.SelectorExpr:
		if !a.field(n) {
			return n
		}
		if isPointer(a.typeOf(n.X)) || !a.addressable(n.X) {
			n.X = a.rv(n.X)
		} else {
			n.X = a.place(n.X)
		}
		return n
	case *ast.IndexExpr:
		if _, ok := under(a.typeOf(n.X)).(*types.Array); ok && a.addressable(n.X) {
			n.X = a.place(n.X)
		} else {
			n.X = a.rv(n.X)
		}
		n.Index = a.rv(n.Index)
		return n
	case *ast.StarExpr:
		if a.isType(n) {
			return n
		}
		n.X = a.rv(n.X)
		return n
	}
	return a.rv(e)
}

// recv handles the receiver of a method selection.
func (a *accessPass) recv(sel *ast.SelectorExpr) {
	s := a.info.Selections[sel]
	if s == nil {
		return
	}
	ptrMethod := false
	if f, ok := s.Obj().(*types.Func); ok {
		if sig, ok := f.Type().(*types.Signature); ok && sig.Recv() != nil {
			ptrMethod = isPointer(sig.Recv().Type())
		}
	}
	if !isPointer(a.typeOf(sel.X)) && ptrMethod && a.addressable(sel.X) {
		sel.X = a.place(sel.X) // implicit &x
		return
	}
	sel.X = a.rv(sel.X)
}

// rv: e is evaluated for its value.
func (a *accessPass) rv(e ast.Expr) ast.Expr {
	if e == nil {
		return nil
	}
	if a.isType(e) {
		return e
	}
	switch n := e.(type) {
	case *ast.ParenExpr:
		n.X = a.rv(n.X)
	case *ast.Ident:
		if o := a.info.Uses[n]; o != nil && a.instr[o] {
			return a.wrap(n, n, false)
		}
	case *ast.SelectorExpr:
		s := a.info.Selections[n]
		switch {
		case s == nil: // qualified identifier
		case s.Kind() == types.FieldVal:
			if a.addressable(n) {
				orig := ast.Expr(n)
				return a.wrap(a.place(n), orig, false)
			}
			n.X = a.rv(n.X)
		default:
			a.recv(n)
		}
	case *ast.IndexExpr:
		switch under(a.typeOf(n.X)).(type) {
		case *types.Map:
			n.X = a.mapWrap(a.rv(n.X), n, false)
			n.Index = a.rv(n.Index)
		case *types.Slice, *types.Pointer, *types.Array:
			if a.addressable(n) {
				return a.wrap(a.place(n), n, false)
			}
			n.X = a.rv(n.X)
			n.Index = a.rv(n.Index)
		case *types.Basic:
			n.X = a.rv(n.X)
			n.Index = a.rv(n.Index)
		}
	case *ast.StarExpr:
		if a.addressable(n) {
			n.X = a.rv(n.X)
			return a.wrap(n, n, false)
		}
	case *ast.UnaryExpr:
		if n.Op == token.AND {
			if _, ok := n.X.(*ast.CompositeLit); ok {
				n.X = a.rv(n.X)
			} else {
				n.X = a.place(n.X)
			}
		} else {
			n.X = a.rv(n.X)
		}
	case *ast.BinaryExpr:
		n.X = a.rv(n.X)
		n.Y = a.rv(n.Y)
	case *ast.CallExpr:
		a.call(n)
	case *ast.CompositeLit:
		_, isStruct := under(a.typeOf(n)).(*types.Struct)
		for i, el := range n.Elts {
			if kv, ok := el.(*ast.KeyValueExpr); ok {
				if !isStruct {
					kv.Key = a.rv(kv.Key)
				}
				kv.Value = a.rv(kv.Value)
			} else {
				n.Elts[i] = a.rv(el)
			}
		}
	case *ast.FuncLit:
		a.block(n.Body)
	case *ast.TypeAssertExpr:
		n.X = a.rv(n.X)
	case *ast.SliceExpr:
		if _, ok := under(a.typeOf(n.X)).(*types.Array); ok && a.addressable(n.X) {
			n.X = a.place(n.X)
		} else {
			n.X = a.rv(n.X)
		}
		n.Low, n.High, n.Max = a.rv(n.Low), a.rv(n.High), a.rv(n.Max)
	case *ast.KeyValueExpr:
		n.Value = a.rv(n.Value)
	}
	return e
}

func (a *accessPass) call(n *ast.CallExpr) {
	if a.isType(n.Fun) { // conversion
		for i := range n.Args {
			n.Args[i] = a.rv(n.Args[i])
		}
		return
	}
	switch f := n.Fun.(type) {
	case *ast.Ident:
		if _, ok := a.info.Uses[f].(*types.Builtin); ok {
			if f.Name == "delete" && len(n.Args) == 2 {
				n.Args[0] = a.mapWrap(a.rv(n.Args[0]), n, true)
				n.Args[1] = a.rv(n.Args[1])
				return
			}
			if f.Name == "len" || f.Name == "cap" {
				if len(n.Args) == 1 {
					if _, ok := under(a.typeOf(n.Args[0])).(*types.Array); ok {
						return // len of an array (or of a pointer to one) evaluates nothing
					}
				}
			}
		} else {
			n.Fun = a.rv(f)
		}
	case *ast.SelectorExpr:
		if s := a.info.Selections[f]; s != nil {
			if s.Kind() == types.FieldVal {
				n.Fun = a.rv(f)
			} else {
				a.recv(f)
			}
		}
	case *ast.ParenExpr, *ast.FuncLit, *ast.CallExpr, *ast.IndexExpr, *ast.TypeAssertExpr:
		if _, ok := f.(*ast.IndexExpr); ok && a.typeOf(f.(*ast.IndexExpr).X) != nil {
			if _, isSig := under(a.typeOf(f.(*ast.IndexExpr).X)).(*types.Signature); isSig {
				break // generic instantiation
			}
		}
		n.Fun = a.rv(f)
	}
	for i := range n.Args {
		n.Args[i] = a.rv(n.Args[i])
	}
}

// lv: e is assigned to.
func (a *accessPass) lv(e ast.Expr) ast.Expr {
	switch n := e.(type) {
	case *ast.ParenExpr:
		n.X = a.lv(n.X)
		return n
	case *ast.Ident:
		if n.Name == "_" {
			return n
		}
		if o := a.info.Uses[n]; o != nil && a.instr[o] {
			return a.wrap(n, n, true)
		}
		return n
	case *ast.SelectorExpr:
		if a.field(n) && a.addressable(n) {
			orig := ast.Expr(n)
			return a.wrap(a.place(n), orig, true)
		}
		return n
	case *ast.IndexExpr:
		if _, ok := under(a.typeOf(n.X)).(*types.Map); ok {
			n.X = a.mapWrap(a.rv(n.X), n, true)
			n.Index = a.rv(n.Index)
			return n
		}
		if a.addressable(n) {
			return a.wrap(a.place(n), n, true)
		}
		return n
	case *ast.StarExpr:
		if a.addressable(n) {
			n.X = a.rv(n.X)
			return a.wrap(n, n, true)
		}
	}
	return e
}

func (a *accessPass) block(b *ast.BlockStmt) {
	if b == nil {
		return
	}
	for _, s := range b.List {
		a.stmt(s)
	}
}

func (a *accessPass) stmt(s ast.Stmt) {
	switch n := s.(type) {
	case nil:
	case *ast.AssignStmt:
		for i := range n.Rhs {
			n.Rhs[i] = a.rv(n.Rhs[i])
		}
		if n.Tok != token.DEFINE {
			for i := range n.Lhs {
				n.Lhs[i] = a.lv(n.Lhs[i])
			}
		}
	case *ast.IncDecStmt:
		if sel, ok := n.X.(*ast.SelectorExpr); ok {
			n.X = a.place(sel) // becomes vs.PlainInc(&x.f, site): load and store are scheduling points
		} else {
			n.X = a.lv(n.X)
		}
	case *ast.ExprStmt:
		n.X = a.rv(n.X)
	case *ast.SendStmt:
		n.Chan, n.Value = a.rv(n.Chan), a.rv(n.Value)
	case *ast.GoStmt:
		a.call(n.Call)
	case *ast.DeferStmt:
		a.call(n.Call)
	case *ast.ReturnStmt:
		for i := range n.Results {
			n.Results[i] = a.rv(n.Results[i])
		}
	case *ast.IfStmt:
		a.stmt(n.Init)
		n.Cond = a.rv(n.Cond)
		a.block(n.Body)
		a.stmt(n.Else)
	case *ast.ForStmt:
		a.stmt(n.Init)
		n.Cond = a.rv(n.Cond)
		a.stmt(n.Post)
		a.block(n.Body)
	case *ast.RangeStmt:
		if _, ok := under(a.typeOf(n.X)).(*types.Map); ok {
			n.X = a.mapWrap(a.rv(n.X), n, false)
		} else {
			n.X = a.rv(n.X)
		}
		if n.Tok == token.ASSIGN {
			if n.Key != nil {
				n.Key = a.lv(n.Key)
			}
			if n.Value != nil {
				n.Value = a.lv(n.Value)
			}
		}
		a.block(n.Body)
	case *ast.SwitchStmt:
		a.stmt(n.Init)
		n.Tag = a.rv(n.Tag)
		a.block(n.Body)
	case *ast.TypeSwitchStmt:
		a.stmt(n.Init)
		switch as := n.Assign.(type) {
		case *ast.AssignStmt:
			if ta, ok := as.Rhs[0].(*ast.TypeAssertExpr); ok {
				ta.X = a.rv(ta.X)
			}
		case *ast.ExprStmt:
			if ta, ok := as.X.(*ast.TypeAssertExpr); ok {
				ta.X = a.rv(ta.X)
			}
		}
		for _, c := range n.Body.List {
			for _, st := range c.(*ast.CaseClause).Body {
				a.stmt(st)
			}
		}
	case *ast.CaseClause:
		for i := range n.List {
			n.List[i] = a.rv(n.List[i])
		}
		for _, st := range n.Body {
			a.stmt(st)
		}
	case *ast.SelectStmt:
		a.block(n.Body)
	case *ast.CommClause:
		a.stmt(n.Comm)
		for _, st := range n.Body {
			a.stmt(st)
		}
	case *ast.BlockStmt:
		a.block(n)
	case *ast.LabeledStmt:
		a.stmt(n.Stmt)
	case *ast.DeclStmt:
		if gd, ok := n.Decl.(*ast.GenDecl); ok && gd.Tok == token.VAR {
			for _, sp := range gd.Specs {
				vs := sp.(*ast.ValueSpec)
				for i := range vs.Values {
					vs.Values[i] = a.rv(vs.Values[i])
				}
			}
		}
	}
}

// instrumentAccesses runs the pass over the function bodies of f; returns the number of wrapped accesses.
func instrumentAccesses(fset *token.FileSet, f *ast.File, info *types.Info, instr map[types.Object]bool, pkgOnly bool) int {
	a := &accessPass{fset: fset, info: info, instr: instr, pkgOnly: pkgOnly}
	for _, d := range f.Decls {
		if fd, ok := d.(*ast.FuncDecl); ok && fd.Body != nil {
			if fd.Recv == nil && fd.Name.Name == "init" {
				continue
			}
			a.block(fd.Body)
		}
	}
	return a.n
}
