// rewrite turns every concurrency primitive in the selected morlock source files into a call to
// the shim package verif/vs and writes the result as a `go build -overlay` file set, so that
// /repo itself is never modified and the checks always instrument its current working tree.
//
//	go f(x)                  -> vs.Go(func() { f(x) })
//	ch <- v                  -> vs.Send(ch, v)
//	<-ch ; v, ok := <-ch     -> vs.Recv(ch) ; vs.Recv2(ch)
//	for x := range ch        -> loop over vs.Recv2
//	select { ... }           -> switch vs.Select(hasDefault, cases...) { arms perform the real op }
//	close(ch)                -> vs.Close(ch)
//	sync.Mutex, atomic.Bool, atomic.LoadPointer/CompareAndSwapPointer, ... -> vs.*
//	time.AfterFunc/Now/Since -> vs.*
//	x.f++ / x.f--            -> vs.PlainInc(&x.f) / vs.PlainDec(&x.f)   (load, yield, store)
//
// With -yields a vs.Yield() is put at the entry of every function of the listed packages (so
// that state hoisted to package scope or shared between searches interleaves).
package main

import (
	"bytes"
	"encoding/json"
	"flag"
	"fmt"
	"go/ast"
	"go/format"
	"go/importer"
	"go/parser"
	"go/token"
	"go/types"
	"os"
	"path/filepath"
	"strconv"
	"strings"

	"golang.org/x/tools/go/ast/astutil"
)

const vsPath = "verif/vs"

func vsSel(name string) ast.Expr {
	return &ast.SelectorExpr{X: ast.NewIdent("vs"), Sel: ast.NewIdent(name)}
}

func call(name string, args ...ast.Expr) *ast.CallExpr {
	return &ast.CallExpr{Fun: vsSel(name), Args: args}
}

var renames = map[string]map[string]string{
	"sync": {"Mutex": "Mutex", "RWMutex": "RWMutex", "WaitGroup": "WaitGroup", "Once": "Once", "Pool": "Pool", "Map": "Map"},
	"sync/atomic": {"Bool": "AtomicBool", "Uint64": "AtomicUint64", "Int64": "AtomicInt64", "Int32": "AtomicInt32", "Uint32": "AtomicUint32", "Pointer": "AtomicPointer",
		"LoadPointer": "LoadPointer", "CompareAndSwapPointer": "CompareAndSwapPointer", "StorePointer": "StorePointer", "SwapPointer": "SwapPointer",
		"LoadUint64": "LoadUint64", "AddUint64": "AddUint64", "StoreUint64": "StoreUint64", "CompareAndSwapUint64": "CompareAndSwapUint64"},
	"time": {"AfterFunc": "AfterFunc", "Now": "Now", "Since": "Since", "Sleep": "Sleep", "After": "After"},
}

// unsupported selectors: their appearance in a rewritten file is a loud harness error
var unsupported = map[string][]string{
	"sync":        {"Cond"},
	"sync/atomic": {"Value", "AddInt32", "AddInt64", "LoadInt32", "LoadInt64", "StoreInt32", "StoreInt64", "CompareAndSwapInt32", "CompareAndSwapInt64"},
	"time":        {"NewTimer", "NewTicker", "Tick"},
}

type spec struct {
	dir     string
	only    map[string]bool
	yields  bool
	pkgonly bool // plain-access instrumentation for reassigned package variables only (the hot sequential packages of the yields build)
}

func main() {
	out := flag.String("out", "", "output directory for the overlay")
	root := flag.String("root", "/verif", "verif root (for the vendored stdlib)")
	repo := flag.String("repo", "/repo", "repository under test")
	yields := flag.Bool("yields", false, "also add function-entry yields to the sequential packages")
	access := flag.Bool("access", true, "wrap plain memory accesses for the happens-before race detector")
	flag.Parse()
	if *out == "" {
		fmt.Fprintln(os.Stderr, "rewrite: -out required")
		os.Exit(2)
	}
	only := func(files ...string) map[string]bool {
		m := map[string]bool{}
		for _, f := range files {
			m[f] = true
		}
		return m
	}
	specs := []spec{
		{dir: *repo + "/pkg/engine"},
		{dir: *repo + "/pkg/engine/uci"},
		{dir: *repo + "/pkg/search/searchctl"},
		{dir: *repo + "/pkg/search", only: only("transposition.go")},
		{dir: *repo + "/pkg/eval", only: only("random.go")},
		{dir: *root + "/third_party/stdlib/pkg/util/iox", only: only("closer.go")},
		{dir: *root + "/third_party/stdlib/pkg/util/contextx"},
	}
	if *yields {
		specs = []spec{
			{dir: *repo + "/pkg/engine"},
			{dir: *repo + "/pkg/engine/uci"},
			{dir: *repo + "/pkg/search/searchctl"},
			{dir: *repo + "/pkg/search", yields: true, pkgonly: true},
			{dir: *repo + "/pkg/eval", yields: true, pkgonly: true},
			{dir: *repo + "/pkg/board", yields: true, pkgonly: true},
			{dir: *repo + "/cmd/sargon/sargon", yields: true, pkgonly: true},
			{dir: *repo + "/cmd/turochamp/turochamp", yields: true, pkgonly: true},
			{dir: *repo + "/cmd/bernstein/bernstein", yields: true, pkgonly: true},
			{dir: *root + "/third_party/stdlib/pkg/util/iox", only: only("closer.go")},
			{dir: *root + "/third_party/stdlib/pkg/util/contextx"},
		}
	}
	overlay := map[string]string{}
	failed := false
	for _, sp := range specs {
		fset := token.NewFileSet()
		pkgs, err := parser.ParseDir(fset, sp.dir, func(fi os.FileInfo) bool { return !strings.HasSuffix(fi.Name(), "_test.go") }, parser.ParseComments)
		if err != nil {
			fmt.Fprintln(os.Stderr, "rewrite: parse", sp.dir, err)
			os.Exit(2)
		}
		for name, pkg := range pkgs {
			var files []*ast.File
			var names []string
			for fn, f := range pkg.Files {
				files = append(files, f)
				names = append(names, fn)
			}
			info := &types.Info{Types: map[ast.Expr]types.TypeAndValue{}, Uses: map[*ast.Ident]types.Object{}, Defs: map[*ast.Ident]types.Object{}, Selections: map[*ast.SelectorExpr]*types.Selection{}}
			conf := types.Config{Importer: importer.ForCompiler(fset, "source", nil), Error: func(err error) {}}
			tpkg, err := conf.Check(name, fset, files, info)
			if err != nil {
				fmt.Println("typecheck (continuing):", err)
			}
			var instr map[types.Object]bool
			if *access {
				instr = analyseIdents(files, info, tpkg)
				if sp.pkgonly {
					for o := range instr {
						if v := o.(*types.Var); v.Pkg() == nil || v.Parent() != v.Pkg().Scope() {
							delete(instr, o)
						}
					}
				}
			}
			for i, f := range files {
				if len(sp.only) > 0 && !sp.only[filepath.Base(names[i])] {
					continue
				}
				f.Comments = nil
				f.Doc = nil
				wrapped := 0
				if *access {
					wrapped = instrumentAccesses(fset, f, info, instr, sp.pkgonly)
				}
				changed, errs := rewriteFile(fset, f, info, sp.yields)
				changed = changed || wrapped > 0
				for _, e := range errs {
					fmt.Fprintf(os.Stderr, "rewrite: %s: unsupported construct: %s\n", names[i], e)
					failed = true
				}
				if !changed {
					continue
				}
				astutil.AddNamedImport(fset, f, "vs", vsPath)
				for _, imp := range []string{"sync", "sync/atomic", "time"} {
					if !astutil.UsesImport(f, imp) {
						astutil.DeleteImport(fset, f, imp)
					}
				}
				var buf bytes.Buffer
				if err := format.Node(&buf, fset, f); err != nil {
					fmt.Fprintln(os.Stderr, "rewrite: format", names[i], err)
					os.Exit(2)
				}
				abs, _ := filepath.Abs(names[i])
				dst := filepath.Join(*out, strings.ReplaceAll(strings.TrimPrefix(abs, "/"), "/", "__"))
				if err := os.WriteFile(dst, buf.Bytes(), 0o644); err != nil {
					fmt.Fprintln(os.Stderr, "rewrite:", err)
					os.Exit(2)
				}
				dabs, _ := filepath.Abs(dst)
				overlay[abs] = dabs
				fmt.Println("rewrote", abs, "plain accesses wrapped:", wrapped)
			}
		}
	}
	if failed {
		os.Exit(2)
	}
	// the bundled engines, lifted from their mains, as the virtual package verif/gen/engines
	if err := genEngines(*repo, filepath.Join(*out, "gen_engines")); err != nil {
		fmt.Fprintln(os.Stderr, "rewrite:", err)
		os.Exit(2)
	}
	gabs, _ := filepath.Abs(filepath.Join(*out, "gen_engines", "gen.go"))
	overlay[filepath.Join(*root, "gen", "engines", "gen.go")] = gabs
	js, _ := json.MarshalIndent(map[string]any{"Replace": overlay}, "", " ")
	if err := os.WriteFile(filepath.Join(*out, "overlay.json"), js, 0o644); err != nil {
		fmt.Fprintln(os.Stderr, "rewrite:", err)
		os.Exit(2)
	}
}

func isChan(info *types.Info, e ast.Expr) bool {
	if tv, ok := info.Types[e]; ok && tv.Type != nil {
		_, ok := tv.Type.Underlying().(*types.Chan)
		return ok
	}
	return false
}

// importName maps the local package identifiers of a file to import paths (syntactic, so that
// it works even where type checking gave up).
func importNames(f *ast.File) map[string]string {
	m := map[string]string{}
	for _, imp := range f.Imports {
		path := strings.Trim(imp.Path.Value, `"`)
		name := path[strings.LastIndex(path, "/")+1:]
		if imp.Name != nil {
			name = imp.Name.Name
		}
		m[name] = path
	}
	return m
}

func rewriteFile(fset *token.FileSet, f *ast.File, info *types.Info, yields bool) (bool, []string) {
	changed := false
	var errs []string
	imports := importNames(f)
	pkgOf := func(id *ast.Ident) string {
		if obj, ok := info.Uses[id]; ok {
			if pn, ok := obj.(*types.PkgName); ok {
				return pn.Imported().Path()
			}
			return ""
		}
		if id.Obj == nil { // unresolved identifier: a package name
			return imports[id.Name]
		}
		return ""
	}
	pre := func(c *astutil.Cursor) bool {
		if n, ok := c.Node().(*ast.SelectStmt); ok {
			c.Replace(rewriteSelect(n, &errs))
			changed = true
		}
		return true
	}
	post := func(c *astutil.Cursor) bool {
		switch n := c.Node().(type) {
		case *ast.GoStmt:
			c.Replace(&ast.ExprStmt{X: call("Go", &ast.FuncLit{
				Type: &ast.FuncType{Params: &ast.FieldList{}},
				Body: &ast.BlockStmt{List: []ast.Stmt{&ast.ExprStmt{X: n.Call}}},
			})})
			changed = true
		case *ast.SendStmt:
			c.Replace(&ast.ExprStmt{X: call("Send", n.Chan, n.Value)})
			changed = true
		case *ast.AssignStmt:
			if len(n.Lhs) == 2 && len(n.Rhs) == 1 {
				if u, ok := n.Rhs[0].(*ast.UnaryExpr); ok && u.Op == token.ARROW {
					n.Rhs[0] = call("Recv2", u.X)
					changed = true
				}
			}
		case *ast.UnaryExpr:
			if n.Op == token.ARROW {
				c.Replace(call("Recv", n.X))
				changed = true
			}
		case *ast.RangeStmt:
			if st := rewriteMapRange(info, n); st != nil {
				c.Replace(st)
				changed = true
				break
			}
			if isChan(info, n.X) {
				var lhs []ast.Expr
				if n.Key != nil {
					lhs = append(lhs, n.Key)
				} else {
					lhs = append(lhs, ast.NewIdent("_"))
				}
				lhs = append(lhs, ast.NewIdent("ok__vs"))
				body := []ast.Stmt{
					&ast.AssignStmt{Lhs: lhs, Tok: token.DEFINE, Rhs: []ast.Expr{call("Recv2", n.X)}},
					&ast.IfStmt{Cond: &ast.UnaryExpr{Op: token.NOT, X: ast.NewIdent("ok__vs")}, Body: &ast.BlockStmt{List: []ast.Stmt{&ast.BranchStmt{Tok: token.BREAK}}}},
				}
				body = append(body, n.Body.List...)
				c.Replace(&ast.ForStmt{Body: &ast.BlockStmt{List: body}})
				changed = true
			}
		case *ast.SelectorExpr:
			if id, ok := n.X.(*ast.Ident); ok {
				p := pkgOf(id)
				if m := renames[p]; m != nil {
					if to, ok := m[n.Sel.Name]; ok {
						c.Replace(vsSel(to))
						changed = true
					}
				}
				for _, u := range unsupported[p] {
					if u == n.Sel.Name {
						errs = append(errs, p+"."+u)
					}
				}
			}
		case *ast.CallExpr:
			if id, ok := n.Fun.(*ast.Ident); ok && id.Name == "make" && len(n.Args) == 2 {
				if _, isChan := n.Args[0].(*ast.ChanType); isChan {
					if lit, ok := n.Args[1].(*ast.BasicLit); ok && lit.Kind == token.INT {
						if v, err := strconv.Atoi(lit.Value); err == nil && v >= 8 {
							n.Args[1] = call("Cap", lit)
							changed = true
						}
					}
				}
			}
			if id, ok := n.Fun.(*ast.Ident); ok && id.Name == "close" && len(n.Args) == 1 {
				if _, isBuiltin := info.Uses[id].(*types.Builtin); isBuiltin || info.Uses[id] == nil {
					n.Fun = vsSel("Close")
					changed = true
				}
			}
		case *ast.IncDecStmt:
			if _, ok := n.X.(*ast.SelectorExpr); ok {
				name := "PlainInc"
				if n.Tok == token.DEC {
					name = "PlainDec"
				}
				pos := fset.Position(n.Pos())
				c.Replace(&ast.ExprStmt{X: call(name, &ast.UnaryExpr{Op: token.AND, X: n.X}, &ast.BasicLit{Kind: token.STRING, Value: fmt.Sprintf("%q", fmt.Sprintf("%s:%d", filepath.Base(pos.Filename), pos.Line))})})
				changed = true
			}
		case *ast.FuncDecl:
			if yields && n.Body != nil && n.Name.Name != "init" && countStmts(n.Body) >= 4 { // skip trivial accessors
				n.Body.List = append([]ast.Stmt{&ast.ExprStmt{X: call("Yield")}}, n.Body.List...)
				changed = true
			}
		}
		return true
	}
	astutil.Apply(f, pre, post)
	return changed, errs
}

func countStmts(b *ast.BlockStmt) int {
	n := 0
	ast.Inspect(b, func(x ast.Node) bool {
		if _, ok := x.(ast.Stmt); ok {
			n++
		}
		return true
	})
	return n - 1 // the block itself
}

func rewriteSelect(s *ast.SelectStmt, errs *[]string) ast.Stmt {
	var cases []ast.Expr
	var arms []ast.Stmt
	hasDefault := "false"
	idx := 0
	for _, cl := range s.Body.List {
		cc := cl.(*ast.CommClause)
		if cc.Comm == nil {
			hasDefault = "true"
			arms = append(arms, &ast.CaseClause{List: []ast.Expr{&ast.BasicLit{Kind: token.INT, Value: "-1"}}, Body: cc.Body})
			continue
		}
		var first ast.Stmt
		switch st := cc.Comm.(type) {
		case *ast.SendStmt:
			cases = append(cases, call("SendCase", st.Chan))
			first = &ast.ExprStmt{X: call("SendNow", st.Chan, st.Value)}
		case *ast.ExprStmt:
			u, ok := st.X.(*ast.UnaryExpr)
			if !ok {
				*errs = append(*errs, "select case of unexpected shape")
				continue
			}
			cases = append(cases, call("RecvCase", u.X))
			first = &ast.ExprStmt{X: call("RecvNow", u.X)}
		case *ast.AssignStmt:
			u, ok := st.Rhs[0].(*ast.UnaryExpr)
			if !ok {
				*errs = append(*errs, "select case of unexpected shape")
				continue
			}
			cases = append(cases, call("RecvCase", u.X))
			fn := "RecvNow"
			if len(st.Lhs) == 2 {
				fn = "Recv2Now"
			}
			first = &ast.AssignStmt{Lhs: st.Lhs, Tok: st.Tok, Rhs: []ast.Expr{call(fn, u.X)}}
		}
		body := append([]ast.Stmt{first}, cc.Body...)
		arms = append(arms, &ast.CaseClause{List: []ast.Expr{&ast.BasicLit{Kind: token.INT, Value: fmt.Sprint(idx)}}, Body: body})
		idx++
	}
	arms = append(arms, &ast.CaseClause{List: nil, Body: []ast.Stmt{&ast.ExprStmt{X: &ast.CallExpr{Fun: ast.NewIdent("panic"), Args: []ast.Expr{&ast.BasicLit{Kind: token.STRING, Value: `"vs: unreachable select arm"`}}}}}})
	args := append([]ast.Expr{ast.NewIdent(hasDefault)}, cases...)
	return &ast.SwitchStmt{Tag: call("Select", args...), Body: &ast.BlockStmt{List: arms}}
}

// rewriteMapRange turns `for k, v := range m { body }` over a map into a loop over vs.MapOrder(m),
// which makes the iteration order an explored environment choice. Only where m is a plain
// variable or field expression (it is evaluated more than once) and the loop variables are
// declared by the statement or absent; anything else is left alone.
func rewriteMapRange(info *types.Info, n *ast.RangeStmt) ast.Stmt {
	tv, ok := info.Types[n.X]
	if !ok || tv.Type == nil {
		return nil
	}
	if _, isMap := tv.Type.Underlying().(*types.Map); !isMap {
		return nil
	}
	// unwrap the access wrapper vs.MR(m, site) and parentheses
	m := n.X
	for {
		if p, ok := m.(*ast.ParenExpr); ok {
			m = p.X
			continue
		}
		if c, ok := m.(*ast.CallExpr); ok {
			if sel, ok := c.Fun.(*ast.SelectorExpr); ok && sel.Sel.Name == "MR" && len(c.Args) == 2 {
				m = c.Args[0]
				continue
			}
		}
		break
	}
	if !pureExpr(m) {
		return nil
	}
	if n.Tok != token.DEFINE && (n.Key != nil || n.Value != nil) {
		return nil
	}
	key := ast.Expr(ast.NewIdent("key__vs"))
	if id, ok := n.Key.(*ast.Ident); ok && id.Name != "_" {
		key = id
	}
	var pre []ast.Stmt
	if id, ok := n.Value.(*ast.Ident); ok && id.Name != "_" {
		pre = append(pre,
			&ast.AssignStmt{Lhs: []ast.Expr{id, ast.NewIdent("ok__vs")}, Tok: token.DEFINE, Rhs: []ast.Expr{&ast.IndexExpr{X: n.X, Index: key}}},
			&ast.IfStmt{Cond: &ast.UnaryExpr{Op: token.NOT, X: ast.NewIdent("ok__vs")}, Body: &ast.BlockStmt{List: []ast.Stmt{&ast.BranchStmt{Tok: token.CONTINUE}}}},
		)
	}
	body := append(pre, n.Body.List...)
	return &ast.RangeStmt{Key: ast.NewIdent("_"), Value: key, Tok: token.DEFINE, X: call("MapOrder", n.X), Body: &ast.BlockStmt{List: body}}
}

func pureExpr(e ast.Expr) bool {
	switch n := e.(type) {
	case *ast.Ident:
		return true
	case *ast.SelectorExpr:
		return pureExpr(n.X)
	case *ast.ParenExpr:
		return pureExpr(n.X)
	case *ast.StarExpr:
		return pureExpr(n.X)
	case *ast.UnaryExpr:
		return n.Op == token.AND && pureExpr(n.X)
	case *ast.CallExpr: // the access wrappers (*vs.R(&x.f, site)) evaluate nothing but their operand
		if sel, ok := n.Fun.(*ast.SelectorExpr); ok {
			if id, ok := sel.X.(*ast.Ident); ok && id.Name == "vs" && (sel.Sel.Name == "R" || sel.Sel.Name == "MR") && len(n.Args) == 2 {
				return pureExpr(n.Args[0])
			}
		}
	}
	return false
}
