module verif

go 1.22.0

toolchain go1.23.5

require (
	github.com/herohde/morlock v0.0.0
	github.com/seekerror/logw v0.8.1
	github.com/seekerror/stdlib v0.0.0-20231216224128-fab4c1e73ebe
	golang.org/x/tools v0.29.0
)

require (
	github.com/anishathalye/porcupine v1.3.0
	github.com/seekerror/build v1.0.2
	golang.org/x/exp v0.0.0-20231214170342-aacd6d4b4611 // indirect
)

replace github.com/herohde/morlock => /repo

replace github.com/seekerror/stdlib => ./third_party/stdlib

replace github.com/seekerror/logw => ./third_party/logw_nop
