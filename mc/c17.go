package mc

import (
	"context"
	"encoding/json"
	"fmt"
	"os"
	"sort"
	"strings"

	"github.com/anishathalye/porcupine"
	"github.com/herohde/morlock/pkg/board"
	"github.com/herohde/morlock/pkg/eval"
	"github.com/herohde/morlock/pkg/search"
	"verif/explore"
	"verif/vs"
)

// ttOp is one table operation of a harness thread.
type ttOp struct {
	Op    string `json:"op"`   // W, R, U
	Hash  uint64 `json:"hash"` // key
	Ply   int    `json:"ply"`
	Depth int    `json:"depth"`
	Tag   int    `json:"tag"` // payload identity: bound, depth, score and move are all derived from it
	// ScoreOnly: stores of the same key differ in NOTHING but the score (same bound, ply, depth and
	// move - what re-searching a position at the same depth produces); the scores of different tags
	// differ in every field of the score (type, mate distance, pawns), so a mixture is recognisable
	ScoreOnly bool `json:"score_only,omitempty"`
}

type ttParams struct {
	Size    uint64   `json:"size"` // bytes
	Threads [][]ttOp `json:"threads"`
	// Adversary: indices of threads that are adversaries rather than subjects: each of their
	// operations happens at an instant the explorer chooses (a lazy release, one deviation each) and
	// all at once (no scheduling points inside), so that MANY competing stores can be placed around
	// the steps of one victim operation - what it takes to drive a retry loop to a fallback path.
	Adversary []int `json:"adversary,omitempty"`
}

// payload derives the stored tuple from the tag so that a mixed tuple is recognisable.
func payload(o ttOp) (search.Bound, eval.Score, board.Move) {
	if o.ScoreOnly || o.Tag >= 1000 { // (the sequential model keeps the flag folded into the tag)
		tag := o.Tag % 1000
		sc := eval.HeuristicScore(eval.Pawns(tag) + 0.5)
		if tag%2 == 1 {
			sc = eval.MateInXScore(int8(tag))
		}
		return search.ExactBound, sc, board.Move{From: board.E2, To: board.E4}
	}
	b := search.ExactBound
	if o.Tag%2 == 1 {
		b = search.LowerBound
	}
	return b, eval.HeuristicScore(eval.Pawns(o.Tag)), board.Move{From: board.Square(o.Tag % 64), To: board.Square((o.Tag + 7) % 64), Promotion: board.Piece(1 + o.Tag%5)}
}

type ttCall struct {
	Thread   int
	Op       ttOp
	Inv, Ret int // scheduler steps at invocation and return
	// results
	OK    bool
	Bound search.Bound
	Depth int
	Score eval.Score
	Move  board.Move
	Used  float64
}

func (c ttCall) String() string {
	switch c.Op.Op {
	case "W":
		return fmt.Sprintf("T%d W(h=%d,ply=%d,d=%d,tag=%d)=%v", c.Thread, c.Op.Hash, c.Op.Ply, c.Op.Depth, c.Op.Tag, c.OK)
	case "R":
		if !c.OK {
			return fmt.Sprintf("T%d R(h=%d)=miss", c.Thread, c.Op.Hash)
		}
		return fmt.Sprintf("T%d R(h=%d)=(%v,d=%d,%v,%v%v)", c.Thread, c.Op.Hash, c.Bound, c.Depth, c.Score, c.Move.From, c.Move.To)
	default:
		return fmt.Sprintf("T%d U=%.3f", c.Thread, c.Used)
	}
}

// seqTable is the boring sequential model of the table.
type seqEntry struct {
	hash       uint64
	ply, depth int
	tag        int
}

type seqTable struct {
	slots map[uint64]*seqEntry
	mask  uint64
}

func (t *seqTable) apply(c ttCall) bool {
	key := c.Op.Hash & t.mask
	switch c.Op.Op {
	case "W":
		cur := t.slots[key]
		val := func(e *seqEntry) int {
			if e == nil {
				return 0
			}
			return (e.ply + e.depth<<1) & 0xffff
		}
		fresh := &seqEntry{c.Op.Hash, c.Op.Ply, c.Op.Depth, c.Op.Tag}
		if c.Op.ScoreOnly {
			fresh.tag += 1000
		}
		if val(cur) > val(fresh) {
			return !c.OK
		}
		if !c.OK {
			return false
		}
		t.slots[key] = fresh
		return true
	case "R":
		cur := t.slots[key]
		if cur == nil || cur.hash != c.Op.Hash {
			return !c.OK
		}
		if !c.OK {
			return false
		}
		b, sc, mv := payload(ttOp{Tag: cur.tag})
		return c.Bound == b && c.Depth == cur.depth && c.Score == sc && c.Move == mv
	default:
		return true // the fill fraction is checked separately
	}
}

func (t *seqTable) clone() *seqTable {
	n := &seqTable{slots: map[uint64]*seqEntry{}, mask: t.mask}
	for k, v := range t.slots {
		n.slots[k] = v
	}
	return n
}

// linearizable: is there a total order of the calls, consistent with real-time order (a call
// that returned before another was invoked comes first), that the sequential table explains?
func linearizable(calls []ttCall, t *seqTable, done []bool, left int) bool {
	if left == 0 {
		return true
	}
	for i, c := range calls {
		if done[i] {
			continue
		}
		// c may come next only if no other pending call returned before c was invoked
		ok := true
		for j, d := range calls {
			if !done[j] && j != i && d.Ret < c.Inv {
				ok = false
				break
			}
		}
		if !ok {
			continue
		}
		t2 := t.clone()
		if t2.apply(c) {
			done[i] = true
			if linearizable(calls, t2, done, left-1) {
				done[i] = false
				return true
			}
			done[i] = false
		}
	}
	return false
}

// porcupineState is the sequential table as a comparable value (at most 4 slots are used).
type porcupineState [4]seqEntry

var porcupineChecked int64

// porcupineLinearizable decides the same question with the porcupine checker (v1.3.0): an
// independent implementation, used to cross-check the brute-force search above.
func porcupineLinearizable(calls []ttCall, mask uint64) bool {
	model := porcupine.Model{
		Init: func() interface{} { return porcupineState{} },
		Step: func(state, input, output interface{}) (bool, interface{}) {
			st := state.(porcupineState)
			c := output.(ttCall)
			t := &seqTable{slots: map[uint64]*seqEntry{}, mask: mask}
			for i := range st {
				if st[i].tag != 0 {
					e := st[i]
					t.slots[uint64(i)] = &e
				}
			}
			if !t.apply(c) {
				return false, state
			}
			var next porcupineState
			for k, e := range t.slots {
				next[k] = *e
			}
			return true, next
		},
	}
	var ops []porcupine.Operation
	for _, c := range calls {
		ops = append(ops, porcupine.Operation{ClientId: c.Thread, Input: c.Op, Call: int64(c.Inv), Output: c, Return: int64(c.Ret)})
	}
	porcupineChecked++
	return porcupine.CheckOperations(model, ops)
}

func buildTT(params json.RawMessage) explore.Scenario {
	var p ttParams
	if err := json.Unmarshal(params, &p); err != nil {
		panic(err)
	}
	return explore.Scenario{Horizon: 5000, Build: func() (func(), func(int), func(*vs.Sched) explore.Outcome) {
		ctx := context.Background()
		tt := search.NewTranspositionTable(ctx, p.Size)
		nslots := tt.Size() / 32
		calls := make([][]ttCall, len(p.Threads))
		main := func() {
			// adversaries are created first: by the time a subject thread takes its first step they are
			// parked at their first release point, at no cost in deviations
			var order []int
			for pass := 0; pass < 2; pass++ {
				for i := range p.Threads {
					adv := false
					for _, a := range p.Adversary {
						adv = adv || a == i
					}
					if adv == (pass == 0) {
						order = append(order, i)
					}
				}
			}
			for _, i := range order {
				i := i
				isAdversary := false
				for _, a := range p.Adversary {
					if a == i {
						isAdversary = true
					}
				}
				vs.GoNamed(fmt.Sprintf("T%d", i), func() {
					for _, o := range p.Threads[i] {
						do := func() {
							c := ttCall{Thread: i, Op: o, Inv: vs.Step()}
							switch o.Op {
							case "W":
								b, sc, mv := payload(o)
								c.OK = tt.Write(board.ZobristHash(o.Hash), b, o.Ply, o.Depth, sc, mv)
							case "R":
								c.Bound, c.Depth, c.Score, c.Move, c.OK = tt.Read(board.ZobristHash(o.Hash))
							case "U":
								c.Used = tt.Used()
							}
							c.Ret = vs.Step()
							calls[i] = append(calls[i], c)
						}
						if isAdversary {
							vs.WaitLazy("adversary")
							vs.Atomically(do)
						} else {
							do()
						}
					}
				})
			}
		}
		verdict := func(s *vs.Sched) explore.Outcome {
			var all []ttCall
			for _, cs := range calls {
				all = append(all, cs...)
			}
			sort.Slice(all, func(i, j int) bool { return all[i].Inv < all[j].Inv })
			var hs []string
			for _, c := range all {
				hs = append(hs, c.String())
			}
			hist := strings.Join(hs, "; ")
			o := explore.Outcome{Class: hist}
			if len(s.Panics) > 0 {
				o.Violation, o.Msg = "C17/panic "+firstLine(s.Panics[0]), s.Panics[0]
				return o
			}
			if len(s.Blocked) > 0 || s.HitHorizon {
				o.Violation, o.Msg = "C17/stuck", "table operations did not finish: "+strings.Join(s.Blocked, ",")
				return o
			}
			// (0) no data race: no two plain accesses to the same memory, one of them a store, that
			// the synchronisation of this interleaving leaves unordered
			if rs := s.Races(); len(rs) > 0 {
				o.Violation = "C17/data-race " + rs[0].String()
				o.Msg = fmt.Sprintf("data race in the table: %v (unordered by the atomics of this interleaving; vector clocks) during %s", rs, hist)
				return o
			}
			// (1) every successful lookup returns one single store's tuple for that hash
			for _, c := range all {
				if c.Op.Op == "R" && c.OK {
					found := false
					for _, w := range all {
						if w.Op.Op != "W" || w.Op.Hash != c.Op.Hash {
							continue
						}
						b, sc, mv := payload(w.Op)
						if c.Bound == b && c.Depth == w.Op.Depth && c.Score == sc && c.Move == mv {
							found = true
						}
					}
					if !found {
						o.Violation, o.Msg = "C17/mixed-tuple", "a lookup returned a tuple no single store for that hash wrote: "+c.String()+" in "+hist
						return o
					}
				}
				if c.Op.Op == "U" && (c.Used < 0 || c.Used > 1) {
					o.Violation, o.Msg = "C17/used-range", fmt.Sprintf("fill fraction %v outside [0,1] in %s", c.Used, hist)
					return o
				}
			}
			// (2) linearizable with respect to the sequential table (incl. the replacement rule)
			lin := linearizable(all, &seqTable{slots: map[uint64]*seqEntry{}, mask: nslots - 1}, make([]bool, len(all)), len(all))
			if nslots <= 4 && porcupineLinearizable(all, nslots-1) != lin {
				fmt.Fprintln(os.Stderr, "HARNESS-ERROR: the brute-force linearizability search and porcupine disagree on: "+hist)
				os.Exit(2)
			}
			if !lin {
				o.Violation, o.Msg = "C17/not-linearizable", "no sequential order of the calls explains their results: "+hist
				return o
			}
			// (3) at quiescence the fill fraction counts every occupied slot exactly once
			occupied := map[uint64]bool{}
			for _, c := range all {
				if c.Op.Op == "W" && c.OK {
					occupied[c.Op.Hash&(nslots-1)] = true
				}
			}
			used := tt.Used() * float64(nslots)
			if int(used+0.5) != len(occupied) || tt.Used() < 0 || tt.Used() > 1 {
				o.Violation = fmt.Sprintf("C17/used-count occupied=%d reported=%.0f", len(occupied), used)
				o.Msg = fmt.Sprintf("%d slots are occupied but the fill fraction reports %.2f of %d slots after %s", len(occupied), tt.Used(), nslots, hist)
				return o
			}
			return o
		}
		return main, nil, verdict
	}}
}

func firstLine(s string) string {
	if i := strings.Index(s, "\n"); i >= 0 {
		return s[:i]
	}
	return s
}

func init() {
	Builders["tt"] = buildTT
	w := func(h uint64, ply, depth, tag int) ttOp {
		return ttOp{Op: "W", Hash: h, Ply: ply, Depth: depth, Tag: tag}
	}
	r := func(h uint64) ttOp { return ttOp{Op: "R", Hash: h} }
	u := ttOp{Op: "U"}
	Defs["C17"] = &Def{
		ID:                 "C17",
		RacesAreViolations: true,
		Rule:               "harness threads issue Write(tagged payload)/Read/Used on keys forced to collide (same hash; same hash and same bound/ply/depth/move with only the score differing; the very same result with only the ply differing; different hash same slot; 1-, 2- and 4-slot tables; equal/greater/smaller replacement value), with the non-atomic `used++` split into load and store by the rewriter. ALL interleavings of every harness (no bound); thorough adds 3x2-, crossing- and 4-thread harnesses explored to deviation bound 7; a contended-slot harness: one victim store and an adversary whose nine lesser stores and one greater store happen all at once at instants of the explorer's choosing (every retry of a compare-and-swap loop can be made to fail, up to ten times). Oracle per complete interleaving: no data race (every plain field / element access of transposition.go is wrapped by the rewriter and checked against vector clocks that the atomics of the interleaving advance: two accesses to the same byte, one a store, unordered by happens-before = race); each hit returns one single store's tuple for that hash; the call/return history is linearizable w.r.t. the sequential table incl. the replacement rule (brute force over <= 6 calls, every verdict cross-checked against porcupine v1.3.0); fill fraction within [0,1] whenever read and, at quiescence, equal to the number of occupied slots. distinct_nontrivial = distinct call/return histories among executions in which two threads touched a common object",
		Gen: func(tier string) []explore.Scenario {
			ps := []ttParams{
				{Size: 32, Threads: [][]ttOp{{w(7, 1, 1, 1)}, {w(9, 1, 2, 2)}}},                                // two writers, one slot, second more valuable
				{Size: 32, Threads: [][]ttOp{{w(7, 3, 3, 1)}, {w(9, 1, 1, 2)}}},                                // one slot, second less valuable
				{Size: 32, Threads: [][]ttOp{{w(7, 1, 1, 1)}, {w(7, 1, 1, 2)}}},                                // same hash, equal value
				{Size: 64, Threads: [][]ttOp{{w(0, 1, 1, 1)}, {w(1, 1, 1, 2)}}},                                // two slots: `used` must reach 2
				{Size: 64, Threads: [][]ttOp{{w(0, 1, 1, 1), w(1, 1, 1, 3)}, {w(1, 1, 2, 2), w(0, 1, 2, 4)}}},  // 2x2 crossing slots
				{Size: 32, Threads: [][]ttOp{{w(7, 1, 1, 1), r(9)}, {w(9, 1, 2, 2), r(7)}}},                    // write then read the other's key
				{Size: 32, Threads: [][]ttOp{{w(7, 1, 1, 1), u}, {w(9, 1, 2, 2), u}}},                          // fill fraction observed concurrently
				{Size: 128, Threads: [][]ttOp{{w(0, 1, 1, 1), w(1, 1, 1, 2)}, {w(2, 1, 1, 3), w(3, 1, 1, 4)}}}, // four slots, four first writes
				{Size: 32, Threads: [][]ttOp{{w(7, 1, 1, 1)}, {w(9, 1, 2, 2)}, {r(9)}}},                        // two writers and a reader
				{Size: 32, Threads: [][]ttOp{{w(7, 1, 1, 1)}, {w(7, 1, 2, 2)}, {r(7), r(7)}}},                  // reader sees one of two stores of the same hash
				{Size: 64, Threads: [][]ttOp{{w(0, 1, 1, 1)}, {w(1, 1, 1, 2)}, {w(2, 1, 3, 3)}}},               // three writers, two slots
				{Size: 64, Threads: [][]ttOp{{w(0, 1, 1, 1)}, {w(1, 1, 1, 2)}, {u, r(0), r(1)}}},               // observer thread
				{Size: 32, Threads: [][]ttOp{{w(7, 1, 1, 1)}, {w(9, 1, 2, 2)}, {r(7)}}},                        // reader of the key that gets replaced
				{Size: 32, Threads: [][]ttOp{{w(7, 1, 1, 1)}, {w(9, 1, 1, 2)}, {r(7), r(9)}}},                  // equal value: each store replaces the other
				{Size: 32, Threads: [][]ttOp{{w(7, 1, 1, 1), w(7, 1, 3, 3)}, {w(9, 1, 2, 2)}, {r(9), r(7)}}},   // 7 -> 9 -> 7 in one slot
				{Size: 32, Threads: [][]ttOp{{w(7, 1, 1, 1)}, {w(7, 1, 1, 2)}, {r(7)}}},                        // the same position stored again at the same ply and depth (the common case in a search), with a reader
				{Size: 32, Threads: [][]ttOp{{w(7, 1, 1, 1), w(7, 1, 1, 3)}, {r(7), r(7)}}},                    // one writer re-storing the same position, a reader alongside
				{Size: 32, Threads: [][]ttOp{{w(7, 1, 1, 1)}, {w(7, 1, 1, 2)}, {w(7, 1, 1, 3)}}},               // three stores of the same position at the same ply and depth
			}
			// the same position stored again with NOTHING but the score differing (same bound, ply, depth,
			// move), alongside a reader and alongside each other
			so := func(tag int) ttOp { return ttOp{Op: "W", Hash: 7, Ply: 1, Depth: 1, Tag: tag, ScoreOnly: true} }
			ps = append(ps,
				ttParams{Size: 32, Threads: [][]ttOp{{so(1)}, {so(2)}, {r(7)}}},
				ttParams{Size: 32, Threads: [][]ttOp{{so(1), so(2)}, {r(7), r(7)}}},
				ttParams{Size: 32, Threads: [][]ttOp{{so(1), so(2)}, {so(3)}}},
			)
			// the very same result stored again with nothing but a later ply (an entry found again later in
			// the game), next to a store of another position whose value lies between the two
			same := func(ply int) ttOp { return ttOp{Op: "W", Hash: 7, Ply: ply, Depth: 1, Tag: 1} }
			ps = append(ps,
				ttParams{Size: 32, Threads: [][]ttOp{{same(1), same(8)}, {w(9, 3, 1, 2)}, {r(7), r(9)}}},
				ttParams{Size: 32, Threads: [][]ttOp{{same(1)}, {same(8)}, {w(9, 3, 1, 2), r(7)}}},
			)
			// a contended slot: one victim store (value 20) and an adversary with nine lesser stores followed by a
			// greater one, each placed at an instant of the explorer's choosing - every retry of the
			// victim's compare-and-swap loop can be made to fail, as often as the deviation budget allows
			var adv []ttOp
			for i := 0; i < 9; i++ {
				adv = append(adv, w(9, 0, 5, 2+i))
			}
			adv = append(adv, w(11, 0, 15, 20), r(11), r(7)) // ... and looks at what the slot holds in the end
			ps = append(ps, ttParams{Size: 32, Threads: [][]ttOp{{w(7, 0, 10, 1)}, adv}, Adversary: []int{1}})
			if tier == "thorough" {
				ps = append(ps,
					ttParams{Size: 32, Threads: [][]ttOp{{w(7, 1, 1, 1), r(9)}, {w(9, 1, 2, 2), r(7)}, {w(7, 1, 3, 3), u}}},             // 3 threads x 2 ops, one slot
					ttParams{Size: 64, Threads: [][]ttOp{{w(0, 1, 1, 1), w(1, 1, 1, 5)}, {w(1, 1, 2, 2), w(0, 1, 2, 6)}, {r(0), r(1)}}}, // crossing writers and a reader
					ttParams{Size: 32, Threads: [][]ttOp{{w(7, 1, 1, 1)}, {w(9, 1, 2, 2)}, {w(11, 1, 3, 3)}, {r(11), u}}},               // four threads
					ttParams{Size: 128, Threads: [][]ttOp{{w(0, 1, 1, 1)}, {w(1, 1, 1, 2)}, {w(2, 1, 1, 3)}, {w(3, 1, 1, 4)}}},          // four first writes: used must reach 4
				)
			}
			var out []explore.Scenario
			for _, p := range ps {
				sc := buildTT(mustJSON(p))
				sc.Spec = mkSpec("tt", p)
				out = append(out, sc)
			}
			return out
		},
		Bound: func(tier string, sc explore.Scenario) int {
			var p ttParams
			_ = json.Unmarshal(sc.Spec.Params, &p)
			if len(p.Adversary) > 0 {
				return 10 // ten adversary stores placed anywhere around the victim's steps
			}
			ops := 0
			for _, th := range p.Threads {
				ops += len(th)
			}
			if ops >= 6 || len(p.Threads) >= 4 {
				return 7 // the large thorough-only harnesses: deviation bound instead of all interleavings
			}
			return 1000 // unbounded: all interleavings (the harnesses are small enough)
		},
	}
}

func mustJSON(v any) json.RawMessage {
	js, err := json.Marshal(v)
	if err != nil {
		panic(err)
	}
	return js
}
