package mc

import (
	"context"
	"encoding/json"
	"fmt"
	"os"
	"runtime"
	"strings"
	"time"

	"github.com/herohde/morlock/pkg/board"
	"github.com/herohde/morlock/pkg/board/fen"
	"github.com/herohde/morlock/pkg/engine"
	"github.com/herohde/morlock/pkg/eval"
	"github.com/herohde/morlock/pkg/search"
	"github.com/herohde/morlock/pkg/search/searchctl"
	"github.com/seekerror/stdlib/pkg/lang"
	"verif/explore"
	"verif/harness"
	"verif/vs"
)

type iterParams struct {
	FEN     string `json:"fen"`
	Limit   int    `json:"limit"`   // depth limit, 0 = none
	Table   bool   `json:"table"`   // transposition table on
	Time    bool   `json:"time"`    // time control given (hard-limit timer + soft limit)
	HaltAt  int    `json:"halt_at"` // step from which the halter may call Halt, -1 = no halter
	Timer   int    `json:"timer"`   // step from which the hard-limit timer may fire
	Horizon int    `json:"horizon"`
	Slow    int    `json:"slow,omitempty"`    // creation index of a goroutine that is held back (1 search, 2 quit-cancel, 3 consumer)
	Until   int    `json:"until,omitempty"`   // ... until this many steps after the halt instant
	HaltOn  int    `json:"halt_on,omitempty"` // the consumer itself calls Halt as soon as it has received this depth (a GUI that stops on seeing depth N)
	Quiesce bool   `json:"quiesce,omitempty"` // captures-only quiescence at the leaves instead of the static evaluation
	Warm    int    `json:"warm,omitempty"`    // an earlier analysis of the same root to this depth limit has used the same table (run to its end before the analysis under test is launched)
	Clean   bool   `json:"clean,omitempty"`   // C12: when Halt returns the board is back in its initial state and the table is never touched again
}

// watchTT reports every use of the table after *after has been set.
type watchTT struct {
	inner search.TranspositionTable
	after *bool
	late  *[]string
}

func (w *watchTT) note(what string) {
	if *w.after && len(*w.late) < 4 {
		*w.late = append(*w.late, fmt.Sprintf("%s at step %d by %s", what, vs.Step(), vs.LastRun()))
	}
}
func (w *watchTT) Read(h board.ZobristHash) (search.Bound, int, eval.Score, board.Move, bool) {
	w.note("Read")
	return w.inner.Read(h)
}
func (w *watchTT) Write(h board.ZobristHash, bound search.Bound, ply, depth int, score eval.Score, move board.Move) bool {
	w.note("Write")
	return w.inner.Write(h, bound, ply, depth, score, move)
}
func (w *watchTT) Size() uint64  { return w.inner.Size() }
func (w *watchTT) Used() float64 { return w.inner.Used() }

func iterRoot(quiesce ...bool) search.Search {
	if len(quiesce) > 0 && quiesce[0] {
		// captures-only quiescence at the leaves: a mate delivered by a capture just beyond the horizon is seen
		return search.AlphaBeta{Eval: search.Quiescence{Explore: func(ctx context.Context, b *board.Board) (board.MovePriorityFn, board.MovePredicateFn) {
			return search.MVVLVA, func(m board.Move) bool { return m.IsCapture() }
		}, Eval: search.Leaf{Eval: eval.Material{}}}}
	}
	return search.AlphaBeta{Eval: search.Leaf{Eval: eval.Material{}}}
}

func pvText(pv search.PV) string {
	var ms []string
	for _, m := range pv.Moves {
		ms = append(ms, fmt.Sprintf("%v%v", m.From, m.To))
	}
	return fmt.Sprintf("d%d %v [%s]", pv.Depth, pv.Score, strings.Join(ms, " "))
}

type directResult struct {
	score eval.Score
	moves []board.Move
}

var directMemo = map[string]directResult{}

// direct returns what a direct fixed-depth search of the root reports (memoised: it is a pure
// function of the root and the depth).
func direct(fenStr string, depth int, quiesce ...bool) (eval.Score, []board.Move) {
	q := len(quiesce) > 0 && quiesce[0]
	key := fmt.Sprintf("%s|%d|%v", fenStr, depth, q)
	if r, ok := directMemo[key]; ok {
		return r.score, r.moves
	}
	score, moves := directSearch(fenStr, depth, q)
	directMemo[key] = directResult{score, moves}
	return score, moves
}

func directSearch(fenStr string, depth int, q bool) (eval.Score, []board.Move) {
	b, err := fen.NewBoard(fenStr)
	if err != nil {
		panic(err)
	}
	_, score, moves, _ := iterRoot(q).Search(context.Background(), &search.Context{Alpha: eval.NegInfScore, Beta: eval.InfScore, TT: search.NoTranspositionTable{}}, b, depth)
	return score, moves
}

func sameMoves(a, b []board.Move) bool {
	if len(a) != len(b) {
		return false
	}
	for i := range a {
		if !a[i].Equals(b[i]) {
			return false
		}
	}
	return true
}

func buildIter(params json.RawMessage) explore.Scenario {
	var p iterParams
	if err := json.Unmarshal(params, &p); err != nil {
		panic(err)
	}
	if p.Horizon == 0 {
		p.Horizon = 700
	}
	delayUntil := p.Until
	if p.HaltAt > 0 {
		delayUntil += p.HaltAt
	}
	return explore.Scenario{Horizon: p.Horizon, EnvSince: p.Time, TimerRelease: p.Timer, DelayThread: p.Slow, DelayUntil: delayUntil, Build: func() (func(), func(int), func(*vs.Sched) explore.Outcome) {
		var got []search.PV
		var halted *search.PV
		seenAtHalt, haltCalled := 0, false
		closed := false
		haltReturned, dirtyBoard := false, ""
		var lateTT []string
		main := func() {
			ctx := context.Background()
			b, err := fen.NewBoard(p.FEN)
			if err != nil {
				panic(err)
			}
			opt := searchctl.Options{}
			if p.Limit > 0 {
				opt.DepthLimit = lang.Some(uint(p.Limit))
			}
			if p.Time {
				opt.TimeControl = lang.Some(searchctl.TimeControl{White: time.Second, Black: time.Second})
			}
			var tt search.TranspositionTable = search.NoTranspositionTable{}
			if p.Table {
				tt = search.NewTranspositionTable(ctx, 1<<12)
			}
			if p.Clean {
				tt = &watchTT{inner: tt, after: &haltReturned, late: &lateTT}
			}
			ply0, hash0 := b.Ply(), b.Hash()
			returned := func() { // a caller's Halt has just returned
				if p.Clean {
					if b.Ply() != ply0 || b.Hash() != hash0 {
						dirtyBoard = fmt.Sprintf("ply %d (was %d), position %v", b.Ply(), ply0, b.Position())
					}
					haltReturned = true
				}
			}
			l := &searchctl.Iterative{Root: iterRoot(p.Quiesce)}
			if p.Warm > 0 {
				_, warm := l.Launch(ctx, b, tt, eval.Random{}, searchctl.Options{DepthLimit: lang.Some(uint(p.Warm))})
				for {
					if _, ok := vs.Recv2(warm); !ok {
						break
					}
				}
			}
			h, out := l.Launch(ctx, b, tt, eval.Random{}, opt)
			vs.GoNamed("consumer", func() {
				for {
					pv, ok := vs.Recv2(out)
					if !ok {
						closed = true
						return
					}
					got = append(got, pv)
					if p.HaltOn > 0 && pv.Depth == p.HaltOn && !haltCalled {
						seenAtHalt = pv.Depth
						haltCalled = true
						r := h.Halt()
						returned()
						halted = &r
					}
				}
			})
			if p.HaltAt >= 0 || p.HaltAt == -2 {
				vs.GoNamed("halter", func() {
					if p.HaltAt == -2 {
						vs.WaitLazy("halt-release")
					} else {
						vs.WaitStep("halt-release", p.HaltAt)
					}
					if len(got) > 0 {
						seenAtHalt = got[len(got)-1].Depth
					}
					haltCalled = true
					pv := h.Halt()
					returned()
					halted = &pv
				})
			}
		}
		verdict := func(s *vs.Sched) explore.Outcome {
			var ds []string
			for _, pv := range got {
				ds = append(ds, fmt.Sprint(pv.Depth))
			}
			o := explore.Outcome{Class: fmt.Sprintf("depths=%s closed=%v", strings.Join(ds, ","), closed)}
			if halted != nil {
				o.Class += fmt.Sprintf(" halt=d%d seen=%d", halted.Depth, seenAtHalt)
			}
			if len(s.Panics) > 0 {
				o.Violation, o.Msg = "C15/panic "+panicSig(s.Panics[0]), shortPanic(s.Panics[0])
				return o
			}
			if dirtyBoard != "" {
				o.Violation = "C12/board-in-use-after-halt"
				o.Msg = "Halt returned while the halted search was still playing moves on the board: " + dirtyBoard
				return o
			}
			if len(lateTT) > 0 {
				o.Violation = "C12/table-touched-after-halt"
				o.Msg = "the halted search used the table after Halt had returned: " + strings.Join(lateTT, "; ")
				return o
			}
			check := func(what string, pv search.PV) (string, string) {
				if pv.Depth < 1 {
					return "C15/" + what + "-depth0", fmt.Sprintf("%s reports depth %d", what, pv.Depth)
				}
				score, moves := direct(p.FEN, pv.Depth, p.Quiesce)
				if pv.Score != score {
					return "C15/" + what + "-score", fmt.Sprintf("%s %s but a direct depth-%d search returns %v", what, pvText(pv), pv.Depth, score)
				}
				if !p.Table && !sameMoves(pv.Moves, moves) {
					return "C15/" + what + "-pv", fmt.Sprintf("%s %s but a direct depth-%d search returns the variation %v", what, pvText(pv), pv.Depth, moves)
				}
				return "", ""
			}
			last := 0
			for _, pv := range got {
				if pv.Depth <= last {
					o.Violation, o.Msg = "C15/not-increasing", fmt.Sprintf("reported depths %s are not strictly increasing", strings.Join(ds, ","))
					return o
				}
				last = pv.Depth
				if v, m := check("reported", pv); v != "" {
					o.Violation, o.Msg = v, m
					return o
				}
			}
			if halted != nil {
				if v, m := check("halt-result", *halted); v != "" {
					o.Violation, o.Msg = v, m+fmt.Sprintf(" (halt requested from step %d)", p.HaltAt)
					return o
				}
				if halted.Depth < seenAtHalt {
					o.Violation, o.Msg = "C15/halt-shallower", fmt.Sprintf("Halt returned depth %d although depth %d had been reported before the halt was requested", halted.Depth, seenAtHalt)
					return o
				}
			}
			// where the analysis must end by itself (0 = never)
			stopDepth := 0
			for d := 1; d <= 6; d++ {
				score, _ := direct(p.FEN, d, p.Quiesce)
				if md, ok := score.MateDistance(); ok && int(md) <= d {
					stopDepth = d
					break
				}
				if p.Limit > 0 && d == p.Limit {
					stopDepth = d
					break
				}
			}
			if stopDepth > 0 && last > stopDepth {
				o.Violation, o.Msg = "C15/overran", fmt.Sprintf("the analysis went on to depth %d although it must end by itself at depth %d (depth limit or forced mate within the depth)", last, stopDepth)
				return o
			}
			if s.HitHorizon {
				o.Inconclusive = true
				return o
			}
			if haltCalled && halted == nil {
				o.Violation, o.Msg = "C15/halt-stuck", "Halt never returned: "+strings.Join(s.Blocked, ",")
				return o
			}
			// how the stream must end
			externallyStopped := haltCalled || p.Time // a halter or the hard-limit timer / soft limit may end it
			if closed && !externallyStopped {
				if stopDepth == 0 {
					o.Violation, o.Msg = "C15/ended-early", fmt.Sprintf("the analysis ended by itself after depths %s although nothing limits it", strings.Join(ds, ","))
					return o
				}
				if last != stopDepth {
					o.Violation, o.Msg = "C15/wrong-end", fmt.Sprintf("the analysis ended by itself after depths %s; it must end exactly at depth %d", strings.Join(ds, ","), stopDepth)
					return o
				}
			}
			if !closed && !s.HitHorizon {
				// quiescent but the stream is still open
				o.Violation, o.Msg = "C15/never-closed", fmt.Sprintf("all threads are parked but the result stream was never closed (depths %s; parked %s)", strings.Join(ds, ","), strings.Join(s.Blocked, ","))
				return o
			}
			return o
		}
		return main, nil, verdict
	}}
}

func iterScenario(p iterParams) explore.Scenario {
	sc := buildIter(mustJSON(p))
	sc.Spec = mkSpec("iter", p)
	return sc
}

func init() {
	Builders["iter"] = buildIter
	Defs["C15"] = &Def{
		ID:   "C15",
		Rule: "real searchctl.Iterative.Launch on small roots (K v K, fortress, checkmated, stalemated, mate-in-1 net) x depth limit {none,1,2,3} x table {off,on} x time control {none, given}; the same with captures-only quiescence at the leaves on roots where a capture mates just beyond the horizon; the same with a table that an earlier analysis of the same root to another depth limit (deeper and shallower) has filled; threads: the iterative-deepening goroutine, its quit-cancel goroutine, a consumer, a halter whose Halt becomes enabled at scheduler step k for a grid of k over the whole run (halt instant enumerated), the hard-limit timer (release step enumerated), a consumer that itself calls Halt as soon as it has received depth 1 or 2 next to that timer (two callers of Halt; timer at every step of a grid and as a lazy thread), the search / quit-cancel / consumer goroutine in turn held back for 60 steps after the halt instant (slow-thread dimension) and, with a time control, every time.Since answered 'short' or 'longer than any limit' (environment deviation); all schedules within the deviation bound. Oracle: reported depths strictly increasing; every reported and every Halt-returned (score, PV with table off) equals a direct fixed-depth search; ends by itself exactly at the depth limit or at the first depth with a forced mate within the depth, never earlier, never without a reason; Halt returns a completed iteration >= 1 at least as deep as everything reported before it was requested. Plus the grid of TimeControl.Limits (sequential; moves to go 0..100 and around every integer width up to 2^63-1), and a free-running engine analysing a three-move root under a grid of time controls incl. clocks of zero and below (overstepped): at least one depth, increasing, ends, Halt returns a completed iteration; a two-minute watchdog turns a hang into a finding; and depth limits 126..130, 254..257, 300, 1023..1025, 4097 (thorough: also 32767..32769, 65535..65537) (around every width a depth or mate distance might be squeezed into, and past round numbers a maintainer might pick as a guard) on a root where every line is a fifty-move draw: increasing depths, ends exactly at the limit. distinct_nontrivial = distinct (depth stream, halt result) classes",
		Gen: func(tier string) []explore.Scenario {
			roots := []string{kP1, kFortress, kMated, kStale, "7k/8/5K2/6Q1/8/8/8/8 b - - 0 1",
				"7k/8/6K1/8/8/8/8/R7 b - - 0 1",  // the side to move is mated in 2: the analysis must end at depth 3
				"6k1/8/6K1/8/8/8/8/R7 w - - 0 1", // the side to move mates in 1: must end at depth 2
			}
			var out []explore.Scenario
			// quiescence at the leaves: a depth-d search can return a mate of distance d+1 (delivered by a
			// capture just beyond the horizon); the analysis must go on to depth d+1, where it is within the depth
			for _, f := range []string{"k7/pp6/8/1Q6/8/8/6B1/4K3 b - - 0 1", "4k3/6b1/8/8/1q6/8/PP6/K7 w - - 0 1", kP1} {
				for _, limit := range []int{0, 1, 2, 3} {
					q := iterParams{FEN: f, Limit: limit, Quiesce: true, HaltAt: -1, Timer: 1 << 30, Horizon: 500}
					out = append(out, iterScenario(q))
					q.HaltAt = -2
					out = append(out, iterScenario(q))
				}
			}
			// an analysis whose table an earlier, deeper (or shallower) analysis of the same root has filled
			for _, f := range roots {
				for _, limit := range []int{1, 2, 3} {
					for _, warm := range []int{1, 3, 4} {
						if warm == limit {
							continue
						}
						q := iterParams{FEN: f, Limit: limit, Table: true, Warm: warm, HaltAt: -1, Timer: 1 << 30, Horizon: 900}
						out = append(out, iterScenario(q))
						if warm == 3 {
							q.HaltAt = -2
							out = append(out, iterScenario(q))
						}
					}
				}
			}
			for _, f := range roots {
				for _, limit := range []int{0, 1, 2, 3} {
					for _, table := range []bool{false, true} {
						for _, tc := range []bool{false, true} {
							if tier != "thorough" && table && tc {
								continue
							}
							base := iterParams{FEN: f, Limit: limit, Table: table, Time: tc, HaltAt: -1, Timer: 1 << 30, Horizon: 500}
							if limit == 0 {
								base.Horizon = 350
							}
							// without a halter (timer early / late when a time control is given)
							if tc {
								for _, t := range []int{0, 30, 90} {
									q := base
									q.Timer = t
									out = append(out, iterScenario(q))
								}
							} else {
								out = append(out, iterScenario(base))
							}
							// the consumer halts as soon as it has seen depth D, next to the hard-limit timer (two
							// callers of Halt on one handle), the timer firing at every step of a grid or lazily
							if (f == kP1 || f == kFortress) && !table && (limit == 0 || limit == 3) {
								for _, d := range []int{1, 2} {
									q := base
									q.HaltOn = d
									if !tc {
										out = append(out, iterScenario(q))
										continue
									}
									q.Timer = -1
									out = append(out, iterScenario(q))
									step := 2
									if tier == "thorough" {
										step = 1
									}
									for t := 0; t <= 160; t += step {
										q.Timer = t
										out = append(out, iterScenario(q))
									}
								}
							}
							// with a halter released at every k of a grid over the unhalted run
							s, _ := explore.RunOnce(iterScenario(base), nil)
							stride := 2
							if tier == "thorough" {
								stride = 1
							}
							max := s.Steps
							if max > 200 {
								max = 200
							}
							for k := 0; k <= max; k += stride {
								q := base
								q.HaltAt = k
								out = append(out, iterScenario(q))
								if !table && !tc && (tier == "thorough" || k%(8*stride) == 0) {
									for slow := 1; slow <= 3; slow++ {
										q.Slow, q.Until = slow, 60
										out = append(out, iterScenario(q))
									}
								}
							}
						}
					}
				}
			}
			return out
		},
		Bound: func(tier string, sc explore.Scenario) int {
			if tier == "thorough" {
				return 2
			}
			var p iterParams
			_ = json.Unmarshal(sc.Spec.Params, &p)
			if p.FEN == kP1 && !p.Table && (p.Limit == 0 || p.Limit == 2) && p.HaltAt%10 == 0 {
				return 2
			}
			return 1
		},
		Setup: func(c *harness.Check) {
			// complete grid for TimeControl.Limits
			n := 0
			remaining := []time.Duration{0, 1, time.Microsecond, time.Millisecond, 10 * time.Millisecond, 999 * time.Millisecond, time.Second, time.Minute, time.Hour, 24 * time.Hour, 1<<62 - 1}
			for _, r := range remaining {
				movesGrid := []int{127, 128, 255, 256, 32767, 32768, 65535, 65536, 1 << 20, 1<<20 + 1, 1<<31 - 1, 1 << 31, 1<<62 - 1, 1 << 62, 1<<63 - 2, 1<<63 - 1}
				for m := 100; m >= 0; m-- {
					movesGrid = append([]int{m}, movesGrid...)
				}
				for _, moves := range movesGrid {
					for _, col := range []board.Color{board.White, board.Black} {
						tc := searchctl.TimeControl{White: r, Black: 2 * time.Hour, Moves: moves}
						if col == board.Black {
							tc = searchctl.TimeControl{White: 2 * time.Hour, Black: r, Moves: moves}
						}
						soft, hard, crashed := func() (s, h time.Duration, p string) {
							defer func() {
								if x := recover(); x != nil {
									p = fmt.Sprint(x)
								}
							}()
							s, h = tc.Limits(col)
							return
						}()
						n++
						if crashed != "" {
							c.Violation(fmt.Sprintf("C15/limits-crash moves=%d", moves), fmt.Sprintf("Limits(%v) with %v left and %d moves to go crashes: %s", col, r, moves, crashed), "note", nil)
							continue
						}
						if hard > r || soft > hard || soft < 0 || hard < 0 {
							c.Violation(fmt.Sprintf("C15/limits remaining=%v moves=%d", r, moves), fmt.Sprintf("Limits(%v) with %v left and %d moves to go: soft %v hard %v", col, r, moves, soft, hard), "note", nil)
						}
					}
				}
			}
			c.SetExtra("time_control_limits_grid_points", n)
			c.Evaluations.Add(int64(n))
			engineClockGrid(c)
			deepLimits(c)
			deepFaithful(c)
		},
	}
}

// engineClockGrid: a real engine (running free, real timers) analyses a tiny root under every time
// control of a grid that includes what a GUI sends when a side has overstepped - clocks of zero and
// below. Whatever the clocks say, the analysis must report at least one completed depth, in increasing order, end,
// and Halt must then return a completed iteration. A generous watchdog (two minutes for an analysis
// of a few microseconds) turns a hang into a finding instead of a hung check.
func engineClockGrid(c *harness.Check) {
	clocks := []time.Duration{-time.Hour, -time.Millisecond, -1, 0, 1, time.Millisecond, 50 * time.Millisecond}
	n := 0
	for _, root := range []string{kP1, "7k/8/8/8/8/8/8/K7 b - - 0 1"} {
		for _, w := range clocks {
			for _, b := range clocks {
				for _, moves := range []int{0, 1} {
					for _, limit := range []uint{1, 2} {
						tc := searchctl.TimeControl{White: w, Black: b, Moves: moves}
						what := fmt.Sprintf("root %q clocks white=%v black=%v moves=%d depth limit %d", root, w, b, moves, limit)
						done := make(chan string, 1)
						go func() {
							ctx := context.Background()
							e := engine.New(ctx, "verif", "verif", search.AlphaBeta{Eval: search.Leaf{Eval: eval.Material{}}}, engine.WithOptions(engine.Options{Hash: 0}))
							if err := e.Reset(ctx, root); err != nil {
								done <- "reset failed: " + err.Error()
								return
							}
							out, err := e.Analyze(ctx, searchctl.Options{DepthLimit: lang.Some(limit), TimeControl: lang.Some(tc)})
							if err != nil {
								done <- "analysis refused: " + err.Error()
								return
							}
							last := 0
							for pv := range out {
								if pv.Depth <= last { // (the stream keeps only the latest iteration: a consumer may miss one)
									done <- fmt.Sprintf("reported depth %d after depth %d", pv.Depth, last)
									return
								}
								last = pv.Depth
							}
							pv, err := e.Halt(ctx)
							switch {
							case last < 1:
								done <- "the analysis ended without reporting depth 1"
							case last > int(limit):
								done <- fmt.Sprintf("the analysis went on to depth %d", last)
							case err == nil && pv.Depth < last:
								done <- fmt.Sprintf("Halt returned depth %d after depth %d had been reported", pv.Depth, last)
							default:
								done <- ""
							}
						}()
						n++
						select {
						case msg := <-done:
							if msg != "" {
								c.Violation(fmt.Sprintf("C15/engine-clock white=%v black=%v", w, b), what+": "+msg, "note", nil)
							}
						case <-time.After(2 * time.Minute):
							c.Violation(fmt.Sprintf("C15/engine-clock-hang white=%v black=%v", w, b), what+": the engine neither reported a depth nor ended the analysis within two minutes (an analysis of three legal moves)", "note", nil)
							c.SetExtra("engine_clock_grid_points", n)
							return // the engine's goroutine may be spinning: no point in piling up more
						}
					}
				}
			}
		}
	}
	c.SetExtra("engine_clock_grid_points", n)
	c.Evaluations.Add(int64(n))
}

// deepLimits: depth limits far beyond what a real search reaches - around every width a depth or a
// mate distance might be squeezed into - on a root where an iteration costs next to nothing (K+R v K
// with the half-move clock at 99: every line is a fifty-move draw after one move, no mate is ever
// found). Running free: the analysis must report depth 1, 2, 3, ... without a gap and end by itself
// exactly at the limit, and Halt then returns that last iteration.
func deepLimits(c *harness.Check) {
	root := "7k/8/8/8/8/8/R7/K7 w - - 99 80"
	n := 0
	limits := []uint{126, 127, 128, 129, 130, 254, 255, 256, 257, 300, 1023, 1024, 1025, 4097}
	if c.Thorough() {
		limits = append(limits, 32767, 32768, 32769, 65535, 65536, 65537)
	}
	for _, limit := range limits {
		for _, table := range []bool{false, true} {
			what := fmt.Sprintf("root %q depth limit %d table=%v", root, limit, table)
			done := make(chan string, 1)
			go func() {
				ctx := context.Background()
				b, err := fen.NewBoard(root)
				if err != nil {
					done <- err.Error()
					return
				}
				var tt search.TranspositionTable = search.NoTranspositionTable{}
				if table {
					tt = search.NewTranspositionTable(ctx, 1<<16)
				}
				l := &searchctl.Iterative{Root: iterRoot()}
				h, out := l.Launch(ctx, b, tt, eval.Random{}, searchctl.Options{DepthLimit: lang.Some(limit)})
				last := 0
				for pv := range out {
					if pv.Depth <= last { // (a slow consumer may miss iterations: increasing, not gap-free)
						done <- fmt.Sprintf("reported depth %d after depth %d", pv.Depth, last)
						return
					}
					if pv.Score != eval.ZeroScore {
						done <- fmt.Sprintf("depth %d reported with score %v; every line is a draw", pv.Depth, pv.Score)
						return
					}
					last = pv.Depth
				}
				if last != int(limit) {
					done <- fmt.Sprintf("the analysis ended by itself at depth %d; nothing but the depth limit %d can end it", last, limit)
					return
				}
				if pv := h.Halt(); pv.Depth != last {
					done <- fmt.Sprintf("Halt returned depth %d after the analysis had ended at depth %d", pv.Depth, last)
					return
				}
				done <- ""
			}()
			n++
			select {
			case msg := <-done:
				if msg != "" {
					c.Violation(fmt.Sprintf("C15/deep-limit %d table=%v", limit, table), what+": "+msg, "note", nil)
				}
			case <-time.After(2 * time.Minute):
				if os.Getenv("VERIF_TRACE") != "" {
					buf := make([]byte, 1<<20)
					fmt.Fprintf(os.Stderr, "goroutines at the time-out:\n%s\n", buf[:runtime.Stack(buf, true)])
				}
				c.Violation(fmt.Sprintf("C15/deep-limit-hang %d", limit), what+": the analysis did not end within two minutes (300 iterations of a three-move search)", "note", nil)
				c.SetExtra("deep_limit_cases", n)
				return
			}
		}
	}
	c.SetExtra("deep_limit_cases", n)
	c.Evaluations.Add(int64(n))
}

// deepFaithful: the analysis of small but non-trivial roots to depth 7-9, running free and without a
// table: every iteration the consumer receives carries the score AND the variation of a direct
// fixed-depth search of that depth, the analysis ends at the first depth with a forced mate within
// the depth (else at the limit), and Halt returns that last iteration. The explorer's scenarios stop
// at depth 3; whatever a driver does differently from some depth on (windows taken from the
// previous iteration, move ordering carried over, ...) shows here.
func deepFaithful(c *harness.Check) {
	roots := []struct {
		fen   string
		limit uint
	}{
		{"7K/8/8/8/3k4/8/P6p/8 w - - 0 1", 7},      // the score drops at depth 6 (a promotion comes into view)
		{"7k/8/8/8/8/8/R7/1R4K1 b - - 0 1", 9},     // the side to move is mated in 6: seen at depth 7, where the analysis must end
		{"8/8/8/4k3/8/8/4P3/4K3 w - - 0 1", 8},     // K+P v K
		{"8/8/1k6/8/8/2K5/1Q6/8 w - - 0 1", 6},     // K+Q v K: a mate comes into view
		{"k7/p7/P7/8/8/7p/7P/7K w - - 0 1", 9},     // fortress
		{"4k3/8/8/3q4/4P3/8/3R4/4K3 b - - 0 1", 5}, // tactical
	}
	n := 0
	for _, r := range roots {
		what := fmt.Sprintf("root %q depth limit %d", r.fen, r.limit)
		done := make(chan string, 1)
		go func() {
			ctx := context.Background()
			b, err := fen.NewBoard(r.fen)
			if err != nil {
				done <- err.Error()
				return
			}
			l := &searchctl.Iterative{Root: iterRoot()}
			h, out := l.Launch(ctx, b, search.NoTranspositionTable{}, eval.Random{}, searchctl.Options{DepthLimit: lang.Some(r.limit)})
			last := search.PV{}
			for pv := range out {
				if pv.Depth <= last.Depth {
					done <- fmt.Sprintf("reported depth %d after depth %d", pv.Depth, last.Depth)
					return
				}
				score, moves := direct(r.fen, pv.Depth)
				if pv.Score != score || !sameMoves(pv.Moves, moves) {
					done <- fmt.Sprintf("reports %s at depth %d; a direct depth-%d search returns %v %v", pvText(pv), pv.Depth, pv.Depth, score, moves)
					return
				}
				last = pv
			}
			stop := int(r.limit)
			for d := 1; d <= int(r.limit); d++ {
				if score, _ := direct(r.fen, d); func() bool { md, ok := score.MateDistance(); return ok && int(md) <= d }() {
					stop = d
					break
				}
			}
			if last.Depth != stop {
				done <- fmt.Sprintf("the analysis ended by itself at depth %d; it must end exactly at depth %d (depth limit or forced mate within the depth)", last.Depth, stop)
				return
			}
			if pv := h.Halt(); pv.Depth != last.Depth || pv.Score != last.Score || !sameMoves(pv.Moves, last.Moves) {
				done <- fmt.Sprintf("Halt returned %s after the analysis had ended with %s", pvText(pv), pvText(last))
				return
			}
			done <- ""
		}()
		n++
		select {
		case msg := <-done:
			if msg != "" {
				c.Violation(fmt.Sprintf("C15/deep-faithful %s", r.fen), what+": "+msg, "note", nil)
			}
		case <-time.After(5 * time.Minute):
			c.Violation(fmt.Sprintf("C15/deep-faithful-hang %s", r.fen), what+": the analysis did not end within five minutes", "note", nil)
			c.SetExtra("deep_faithful_roots", n)
			return
		}
	}
	c.SetExtra("deep_faithful_roots", n)
	c.Evaluations.Add(int64(n))
}
