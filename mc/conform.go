package mc

import (
	"bufio"
	"context"
	"fmt"
	"io"
	"os"
	"os/exec"
	"path/filepath"
	"runtime"
	"strings"
	"time"

	"github.com/herohde/morlock/pkg/engine/uci"
	"verif/harness"
)

// Conformance of the harness' engines with the shipped ones.
//
// The bundled engines cannot be imported (package main): the explorer runs code LIFTED from
// cmd/*/main.go (rewrite/gen.go) over the scheduler shim and a logging stub. That is a model of
// the binaries, however thin, and a model is only worth something while it is bound to the code:
// here the REAL binaries (built by ./run from the tree under test, real logger, real stdin/stdout
// plumbing of pkg/engine/util.go) and the lifted engines (same process as the explorer, running
// free) are driven through the same complete set of UCI sessions, and everything they print
// except the `info` lines (which carry wall-clock time) must be identical line for line. Each
// session also carries the C04 oracle on the real binary: every go answered by exactly one
// bestmove, the process ends by itself with status 0 on quit and on end of input.

type conformSession struct {
	Name   string
	Lines  []string // sent one by one; after a go the bestmove is awaited, after isready the readyok
	EOF    bool     // stdin is closed instead of sending quit
	NoBook bool     // OwnBook switched off first (book replies are drawn at random: only then are both sides comparable move for move)
}

func conformSessions() []conformSession {
	return []conformSession{
		{Name: "startpos depth 2", NoBook: true, Lines: []string{"isready", "position startpos", "go depth 2"}},
		{Name: "moves then go", NoBook: true, Lines: []string{"position startpos moves e2e4 e7e5", "go depth 1", "isready"}},
		{Name: "two games", NoBook: true, Lines: []string{"position startpos moves g1f3", "go depth 1", "ucinewgame", "position fen 7k/8/8/8/8/8/8/K7 w - - 0 1", "go depth 3"}},
		{Name: "mated root", NoBook: true, Lines: []string{"position fen 7k/5Q2/6K1/8/8/8/8/8 b - - 0 1 moves", "go depth 1"}},
		{Name: "checkmated", NoBook: true, Lines: []string{"position fen 6Qk/8/6K1/8/8/8/8/8 b - - 0 1", "go depth 1"}},
		{Name: "go without position", NoBook: true, Lines: []string{"go depth 1"}},
		{Name: "white space and case", NoBook: true, Lines: []string{"position  startpos   moves  g1f3 ", "go  depth  1", "ISREADY", "isready"}},
		{Name: "unknown lines", NoBook: true, Lines: []string{"", "hello", "position", "go depth 1", "setoption name Nonsense value 3", "isready"}},
		{Name: "under-promotion in the moves", NoBook: true, Lines: []string{"position fen 8/P6k/8/8/8/8/2p5/K7 w - - 3 40 moves a7a8n c2c1b", "go depth 1"}},
		{Name: "options", NoBook: true, Lines: []string{"setoption name Hash value 1", "setoption name Depth value 1", "position startpos", "go", "setoption name Hash value 0", "position startpos moves e2e4", "go"}},
		{Name: "overstepped clock", NoBook: true, Lines: []string{"position fen 7k/8/8/8/8/8/8/K7 w - - 0 1", "go wtime -50 btime 1000 depth 1"}},
		{Name: "end of input", NoBook: true, EOF: true, Lines: []string{"position startpos", "go depth 1"}},
		{Name: "end of input at once", EOF: true},
		{Name: "book on", Lines: []string{"position startpos", "go depth 1", "position startpos moves e2e4", "go depth 1"}},
	}
}

type conformResult struct {
	lines []string // everything printed except info lines
	err   string
}

// drive runs one session against a line-oriented UCI endpoint.
func conformDrive(s conformSession, send func(string) error, out <-chan string, finish func() error) conformResult {
	var res conformResult
	deadline := 90 * time.Second
	await := func(prefix string) bool {
		t := time.After(deadline)
		for {
			select {
			case l, ok := <-out:
				if !ok {
					res.err = "output ended while waiting for " + prefix
					return false
				}
				if strings.HasPrefix(l, "info ") {
					continue
				}
				res.lines = append(res.lines, l)
				if strings.HasPrefix(l, prefix) {
					return true
				}
			case <-t:
				res.err = fmt.Sprintf("no %q within %v", prefix, deadline)
				return false
			}
		}
	}
	if !await("uciok") {
		return res
	}
	lines := s.Lines
	if s.NoBook {
		lines = append([]string{"setoption name OwnBook value false"}, lines...)
	}
	for _, l := range lines {
		if err := send(l); err != nil {
			res.err = "cannot send " + l + ": " + err.Error()
			return res
		}
		switch f := strings.Fields(strings.ToLower(l)); {
		case len(f) > 0 && f[0] == "go":
			if !await("bestmove") {
				return res
			}
		case len(f) > 0 && f[0] == "isready":
			if !await("readyok") {
				return res
			}
		}
	}
	if !s.EOF {
		if err := send("quit"); err != nil {
			res.err = "cannot send quit: " + err.Error()
			return res
		}
	}
	if err := finish(); err != nil {
		res.err = err.Error()
		return res
	}
	// whatever else was printed before the end
	for {
		select {
		case l, ok := <-out:
			if !ok {
				return res
			}
			if !strings.HasPrefix(l, "info ") {
				res.lines = append(res.lines, l)
			}
		case <-time.After(200 * time.Millisecond):
			return res
		}
	}
}

func conformReal(bin string, flags map[string]string, s conformSession) conformResult {
	args := []string{"-logtostderr"}
	for k, v := range flags {
		args = append(args, "-"+k+"="+v)
	}
	cmd := exec.Command(bin, args...)
	cmd.Stderr = io.Discard
	stdin, err := cmd.StdinPipe()
	if err != nil {
		return conformResult{err: err.Error()}
	}
	stdout, err := cmd.StdoutPipe()
	if err != nil {
		return conformResult{err: err.Error()}
	}
	if err := cmd.Start(); err != nil {
		return conformResult{err: "cannot start " + bin + ": " + err.Error()}
	}
	out := make(chan string, 1024)
	go func() {
		defer close(out)
		sc := bufio.NewScanner(stdout)
		for sc.Scan() {
			out <- sc.Text()
		}
	}()
	send := func(l string) error {
		_, err := io.WriteString(stdin, l+"\n")
		return err
	}
	_ = send("uci")
	finish := func() error {
		if s.EOF {
			_ = stdin.Close()
		}
		done := make(chan error, 1)
		go func() { done <- cmd.Wait() }()
		select {
		case err := <-done:
			if err != nil {
				return fmt.Errorf("the process ended with %v", err)
			}
			return nil
		case <-time.After(90 * time.Second):
			_ = cmd.Process.Kill()
			return fmt.Errorf("the process did not end within 90s of quit / end of input")
		}
	}
	res := conformDrive(s, send, out, finish)
	if cmd.ProcessState == nil {
		_ = cmd.Process.Kill()
		_, _ = cmd.Process.Wait()
	}
	return res
}

func conformLifted(name string, flags map[string]string, s conformSession) (res conformResult) {
	defer func() {
		if r := recover(); r != nil {
			res.err = fmt.Sprintf("panic: %v", r)
		}
	}()
	ctx, cancel := context.WithCancel(context.Background())
	defer cancel()
	e, opts := newEngine(ctx, uciParams{Engine: name, Seed: 1, Flags: flags})
	in := make(chan string, 1)
	d, out := uci.NewDriver(ctx, e, in, opts...)
	closed := false
	send := func(l string) error {
		select {
		case in <- l:
			return nil
		case <-d.Closed():
			return fmt.Errorf("the driver has terminated")
		case <-time.After(90 * time.Second):
			return fmt.Errorf("the driver does not take input")
		}
	}
	finish := func() error {
		if s.EOF && !closed {
			close(in)
			closed = true
		}
		select {
		case <-d.Closed():
			return nil
		case <-time.After(90 * time.Second):
			buf := make([]byte, 1<<20)
			buf = buf[:runtime.Stack(buf, true)]
			if os.Getenv("VERIF_TRACE") != "" {
				fmt.Fprintf(os.Stderr, "goroutines at the time-out:\n%s\n", buf)
			}
			return fmt.Errorf("the driver did not shut down within 90s of quit / end of input")
		}
	}
	return conformDrive(s, send, out, finish)
}

func sameLines(a, b []string) bool {
	if len(a) != len(b) {
		return false
	}
	for i := range a {
		if a[i] != b[i] {
			return false
		}
	}
	return true
}

// binaryConformance: see the comment at the top of the file.
func binaryConformance(c *harness.Check) {
	dir := os.Getenv("VERIF_BINS")
	if dir == "" {
		c.SetExtra("binary_conformance", "skipped: VERIF_BINS not set (the run script sets it)")
		return
	}
	engines := []struct {
		name  string
		flags map[string]string
	}{
		{"morlock", nil},
		{"turochamp", map[string]string{"noise": "0"}},
		{"sargon", map[string]string{"noise": "0"}},
		{"bernstein", nil},
		{"bernstein", map[string]string{"ply": "2", "branch": "3"}},
	}
	sessions := conformSessions()
	type job struct {
		e int
		s conformSession
	}
	var jobs []job
	for i := range engines {
		for _, s := range sessions {
			jobs = append(jobs, job{i, s})
		}
	}
	compared := 0
	harness.Parallel(len(jobs), func(i int) {
		j := jobs[i]
		eng := engines[j.e]
		what := fmt.Sprintf("%s %v session %q", eng.name, eng.flags, j.s.Name)
		real := conformReal(filepath.Join(dir, eng.name), eng.flags, j.s)
		lifted := conformLifted(eng.name, eng.flags, j.s)
		c.Evaluations.Add(1)
		c.Transitions.Add(int64(len(j.s.Lines)))
		if real.err != "" {
			c.Violation("C04/binary "+what, "the real binary, "+what+": "+real.err+"\n    printed: "+strings.Join(real.lines, " | "), "note", nil)
			return
		}
		if lifted.err != "" {
			c.Violation("C04/lifted "+what, "the lifted engine, "+what+": "+lifted.err+"\n    printed: "+strings.Join(lifted.lines, " | "), "note", nil)
			return
		}
		// one bestmove per go on the real binary
		gos, bests := 0, 0
		for _, l := range j.s.Lines {
			if f := strings.Fields(strings.ToLower(l)); len(f) > 0 && f[0] == "go" {
				gos++
			}
		}
		for _, l := range real.lines {
			if strings.HasPrefix(l, "bestmove") {
				bests++
			}
		}
		if gos != bests {
			c.Violation("C04/binary-answers "+what, fmt.Sprintf("the real binary, %s: %d go commands, %d bestmove lines: %s", what, gos, bests, strings.Join(real.lines, " | ")), "note", nil)
			return
		}
		if !j.s.NoBook && len(j.s.Lines) > 0 {
			return // book replies are drawn at random: answered and ended is all that is comparable
		}
		if os.Getenv("VERIF_TRACE") != "" {
			fmt.Fprintf(os.Stderr, "conformance %s\n    real:   %s\n    lifted: %s\n", what, strings.Join(real.lines, " | "), strings.Join(lifted.lines, " | "))
		}
		if !sameLines(real.lines, lifted.lines) {
			c.Violation("C04/harness-out-of-sync "+what, fmt.Sprintf("%s: the engine lifted from cmd/%s/main.go and the real binary disagree (the harness no longer models the shipped engine, or the engine's answer depends on something outside the game)\n    real:   %s\n    lifted: %s", what, eng.name, strings.Join(real.lines, " | "), strings.Join(lifted.lines, " | ")), "note", nil)
		}
	})
	for _, j := range jobs {
		if j.s.NoBook || len(j.s.Lines) == 0 {
			compared++
		}
	}
	c.SetExtra("binary_conformance_sessions", len(jobs))
	c.SetExtra("binary_conformance_sessions_compared_line_by_line", compared)
}
