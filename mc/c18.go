package mc

import (
	"context"
	"encoding/json"
	"fmt"
	"strings"

	"github.com/herohde/morlock/cmd/bernstein/bernstein"
	"github.com/herohde/morlock/cmd/sargon/sargon"
	"github.com/herohde/morlock/cmd/turochamp/turochamp"
	"github.com/herohde/morlock/pkg/board"
	"github.com/herohde/morlock/pkg/board/fen"
	"github.com/herohde/morlock/pkg/engine"
	"github.com/herohde/morlock/pkg/eval"
	"github.com/herohde/morlock/pkg/search"
	"github.com/herohde/morlock/pkg/search/searchctl"
	"github.com/seekerror/stdlib/pkg/lang"
	"verif/explore"
	"verif/vs"
)

// sideParams: independent engines searching side by side (C18, concurrent half). Built with
// function-entry yields in pkg/board, pkg/search, pkg/eval and the historical engines, so that
// any state hoisted to package scope or shared between Search values interleaves.
type sideParams struct {
	Engines []string `json:"engines"` // one per thread
	FENs    []string `json:"fens"`
	Depth   int      `json:"depth"`
	Shared  bool     `json:"shared"` // the threads share ONE Search value (as two engines built from one search would)
}

func sideSearch(name string) search.Search {
	switch strings.TrimSuffix(name, "-noisy") {
	case "plain":
		return search.AlphaBeta{Eval: search.Leaf{Eval: eval.Material{}}}
	case "quiescence":
		return search.AlphaBeta{Eval: search.Quiescence{Explore: func(ctx context.Context, b *board.Board) (board.MovePriorityFn, board.MovePredicateFn) {
			return search.MVVLVA, func(m board.Move) bool { return m.IsCapture() }
		}, Eval: search.Leaf{Eval: eval.Material{}}}}
	case "turochamp":
		return search.AlphaBeta{Eval: search.Quiescence{Explore: turochamp.ConsiderableMovesOnly, Eval: search.Leaf{Eval: turochamp.Eval{}}}}
	case "sargon":
		points := &sargon.Points{}
		return sargon.Hook{Eval: search.AlphaBeta{Explore: sargon.SkipUnderPromotions, Eval: sargon.OnePlyIfChecked{Leaf: search.Leaf{Eval: points}}}, Hook: points}
	case "bernstein":
		return search.AlphaBeta{Explore: bernstein.PlausibleMoveTable{Limit: 7}.Explore, Eval: search.Leaf{Eval: bernstein.Eval{Factor: 20}}}
	}
	panic(name)
}

type sideResult struct {
	Nodes uint64
	Score eval.Score
	PV    string
	Err   string
}

// sideNoise: engines whose name ends in "-noisy" search with evaluation noise from a fixed seed.
func sideNoise(name string) eval.Random {
	if strings.HasSuffix(name, "-noisy") {
		return eval.NewRandom(5000, 11)
	}
	return eval.Random{}
}

func runSide(s search.Search, f string, depth int, noise eval.Random) sideResult {
	b, err := fen.NewBoard(f)
	if err != nil {
		panic(err)
	}
	n, sc, pv, e := s.Search(context.Background(), &search.Context{TT: search.NoTranspositionTable{}, Noise: noise}, b, depth)
	r := sideResult{Nodes: n, Score: sc, PV: board.PrintMoves(pv)}
	if e != nil {
		r.Err = e.Error()
	}
	return r
}

var sideMemo = map[string]sideResult{}

func buildSide(params json.RawMessage) explore.Scenario {
	var p sideParams
	if err := json.Unmarshal(params, &p); err != nil {
		panic(err)
	}
	return explore.Scenario{Horizon: 200000, Build: func() (func(), func(int), func(*vs.Sched) explore.Outcome) {
		results := make([]sideResult, len(p.Engines))
		done := make([]bool, len(p.Engines))
		main := func() {
			var shared search.Search
			if p.Shared {
				shared = sideSearch(p.Engines[0])
			}
			for i := range p.Engines {
				i := i
				vs.GoNamed(fmt.Sprintf("E%d", i), func() {
					s := shared
					if s == nil {
						s = sideSearch(p.Engines[i])
					}
					results[i] = runSide(s, p.FENs[i], p.Depth, sideNoise(p.Engines[i]))
					done[i] = true
				})
			}
		}
		verdict := func(s *vs.Sched) explore.Outcome {
			var parts []string
			for i, r := range results {
				parts = append(parts, fmt.Sprintf("E%d:%v", i, r))
			}
			o := explore.Outcome{Class: strings.Join(parts, " ")}
			if len(s.Panics) > 0 {
				o.Violation, o.Msg = "C18/panic "+panicSig(s.Panics[0]), shortPanic(s.Panics[0])
				return o
			}
			if s.HitHorizon {
				o.Inconclusive = true
				return o
			}
			for i := range p.Engines {
				if !done[i] {
					o.Violation, o.Msg = "C18/stuck", "a search did not finish: "+strings.Join(s.Blocked, ",")
					return o
				}
				key := fmt.Sprintf("%s|%s|%d", p.Engines[i], p.FENs[i], p.Depth)
				want, ok := sideMemo[key]
				if !ok {
					want = runSide(sideSearch(p.Engines[i]), p.FENs[i], p.Depth, sideNoise(p.Engines[i])) // sequential: no scheduler is active here
					sideMemo[key] = want
				}
				if results[i] != want {
					o.Violation = fmt.Sprintf("C18/side-by-side %s", p.Engines[i])
					o.Msg = fmt.Sprintf("engine %d (%s on %s, depth %d) searching next to another engine returned %v; alone it returns %v", i, p.Engines[i], p.FENs[i], p.Depth, results[i], want)
					if len(p.Engines) == 1 {
						o.Violation = fmt.Sprintf("C18/map-order %s", p.Engines[i])
						o.Msg = fmt.Sprintf("%s on %s, depth %d, returned %v when one `for range` over a map visited its keys in reverse; with the canonical order it returns %v: the result depends on map iteration order, which Go randomises", p.Engines[i], p.FENs[i], p.Depth, results[i], want)
					}
					return o
				}
			}
			return o
		}
		return main, nil, verdict
	}}
}

func init() {
	Builders["side"] = buildSide
	Defs["C18"] = &Def{
		ID:   "C18",
		Rule: "concurrent half of C18, built with a scheduling point at the entry of every non-trivial function of pkg/board, pkg/search, pkg/eval and the three historical engines: two or three independent engines (plain, quiescence, with and without evaluation noise, and the TUROCHAMP, SARGON and BERNSTEIN searches) search small roots side by side, also sharing one Search value; every schedule within the deviation bound must give each engine exactly the (score, PV, node count) it returns alone; and each historical engine ALONE on castling- and capture-rich middlegames with the iteration order of every `for range` over a map as an environment choice (canonical or reversed, one deviation per loop execution): the result must not depend on it",
		Gen: func(tier string) []explore.Scenario {
			pairs := [][]string{{"plain", "plain"}, {"quiescence", "plain"}, {"turochamp", "turochamp"}, {"bernstein", "bernstein"}, {"plain", "turochamp"},
				{"quiescence", "quiescence-noisy"}, {"plain-noisy", "plain"}} // one engine with evaluation noise next to one without
			if tier == "thorough" {
				pairs = append(pairs, []string{"sargon", "sargon"}, []string{"sargon", "bernstein"})
			}
			var out []explore.Scenario
			for _, pr := range pairs {
				for _, shared := range []bool{false, true} {
					if shared && pr[0] != pr[1] {
						continue
					}
					p := sideParams{Engines: pr, FENs: []string{kP1, kP2}, Depth: 1, Shared: shared}
					sc := buildSide(mustJSON(p))
					sc.Spec = mkSpec("side", p)
					out = append(out, sc)
					if tier == "thorough" && (pr[0] == "plain" || pr[0] == "quiescence") {
						q := sideParams{Engines: pr, FENs: []string{kFortress, kP2}, Depth: 2, Shared: shared}
						sc := buildSide(mustJSON(q))
						sc.Spec = mkSpec("side", q)
						out = append(out, sc)
					}
				}
			}
			// one engine alone: the only choices are the environment's - the order in which each
			// `for range` over a map visits its keys (canonical or reversed, per loop execution)
			rich := []string{
				"r3k2r/p1ppqpb1/bn2pnp1/3PN3/1p2P3/2N2Q1p/PPPBBPPP/R3K2R w KQkq - 0 1",
				"r3k2r/ppp2p1p/8/6p1/8/3P1N2/PPP2PPP/R1B1K2R w KQkq - 0 1",
				"r1bq1rk1/pp2bppp/2n1pn2/2pp4/3P1B2/2PBPN2/PP1N1PPP/R2QK2R w KQ - 0 8",
			}
			for _, e := range []string{"turochamp", "bernstein", "sargon", "quiescence"} {
				for _, f := range rich {
					d := 1
					if e == "bernstein" || (tier == "thorough" && e != "turochamp") {
						d = 2
					}
					p := sideParams{Engines: []string{e}, FENs: []string{f}, Depth: d}
					sc := buildSide(mustJSON(p))
					sc.Spec = mkSpec("side", p)
					out = append(out, sc)
				}
			}
			return out
		},
		Bound: func(tier string, sc explore.Scenario) int {
			var p sideParams
			_ = json.Unmarshal(sc.Spec.Params, &p)
			if tier == "thorough" && len(p.Engines) > 0 && (p.Engines[0] == "plain" || p.Engines[0] == "quiescence") && p.Depth == 1 {
				return 2
			}
			return 1
		},
	}
}

// overlapParams: one engine with evaluation noise on; a depth-2 analysis is halted from step
// HaltAt on and a depth-1 analysis of the same position started at once. The noise generator is
// a single stream per game, so what the second analysis returns must be what it returns after
// SOME number n of earlier draws (any halt instant is fine), i.e. a contiguous suffix of the
// stream; a halted search that is still drawing numbers while its successor runs breaks that.
type overlapParams struct {
	FEN    string `json:"fen"`
	HaltAt int    `json:"halt_at"`
	Noise  uint   `json:"noise"`
	Slow   int    `json:"slow"`  // creation index of a goroutine that is slow (0 = none)
	Until  int    `json:"until"` // ... until this many steps after the halt instant
}

type noisyResult struct {
	Score eval.Score
	Move  string
}

var noisyMemo = map[string]map[noisyResult]int{}

// sequentialNoisy lists what a depth-1 search returns after n earlier draws, for every n up to a bound.
func sequentialNoisy(f string, limit uint) map[noisyResult]int {
	key := fmt.Sprintf("%s|%d", f, limit)
	if m, ok := noisyMemo[key]; ok {
		return m
	}
	m := map[noisyResult]int{}
	ctx := context.Background()
	for n := 0; n <= 600; n++ {
		noise := eval.NewRandom(int(limit), 0)
		for i := 0; i < n; i++ {
			noise.Evaluate(ctx, nil)
		}
		b, _ := fen.NewBoard(f)
		_, sc, pv, _ := sideSearch("plain").Search(ctx, &search.Context{TT: search.NoTranspositionTable{}, Noise: noise}, b, 1)
		r := noisyResult{Score: sc}
		if len(pv) > 0 {
			r.Move = pv[0].String()
		}
		if _, ok := m[r]; !ok {
			m[r] = n
		}
	}
	noisyMemo[key] = m
	return m
}

func buildOverlap(params json.RawMessage) explore.Scenario {
	var p overlapParams
	if err := json.Unmarshal(params, &p); err != nil {
		panic(err)
	}
	return explore.Scenario{Horizon: 60000, DelayThread: p.Slow, DelayUntil: p.HaltAt + p.Until, Build: func() (func(), func(int), func(*vs.Sched) explore.Outcome) {
		var second *search.PV
		var errText string
		main := func() {
			ctx := context.Background()
			e := engine.New(ctx, "verif", "verif", sideSearch("plain"), engine.WithOptions(engine.Options{Noise: p.Noise}))
			if err := e.Reset(ctx, p.FEN); err != nil {
				errText = err.Error()
				return
			}
			out1, err := e.Analyze(ctx, searchctl.Options{DepthLimit: lang.Some(uint(2))})
			if err != nil {
				errText = err.Error()
				return
			}
			vs.GoNamed("drain", func() {
				for {
					if _, ok := vs.Recv2(out1); !ok {
						return
					}
				}
			})
			vs.WaitStep("halt-release", p.HaltAt)
			_, _ = e.Halt(ctx)
			out2, err := e.Analyze(ctx, searchctl.Options{DepthLimit: lang.Some(uint(1))})
			if err != nil {
				errText = err.Error()
				return
			}
			for {
				pv, ok := vs.Recv2(out2)
				if !ok {
					break
				}
				cp := pv
				second = &cp
			}
		}
		verdict := func(s *vs.Sched) explore.Outcome {
			o := explore.Outcome{Class: "no result"}
			if len(s.Panics) > 0 {
				o.Violation, o.Msg = "C18/panic "+panicSig(s.Panics[0]), shortPanic(s.Panics[0])
				return o
			}
			if s.HitHorizon {
				o.Inconclusive = true
				return o
			}
			if errText != "" || second == nil {
				o.Violation, o.Msg = "C18/overlap-failed", "the second analysis did not run: "+errText+" parked: "+strings.Join(s.Blocked, ",")
				return o
			}
			r := noisyResult{Score: second.Score}
			if len(second.Moves) > 0 {
				r.Move = second.Moves[0].String()
			}
			o.Class = fmt.Sprintf("%v %s", r.Score, r.Move)
			if _, ok := sequentialNoisy(p.FEN, p.Noise)[r]; !ok {
				o.Violation = "C18/noise-not-reproducible"
				o.Msg = fmt.Sprintf("noise on: the analysis started right after halting another one returned %v %s, which no contiguous suffix of the seed's noise stream produces (the halted search was still drawing numbers)", r.Score, r.Move)
			}
			return o
		}
		return main, nil, verdict
	}}
}

func init() {
	Builders["overlap"] = buildOverlap
	base := Defs["C18"].Gen
	Defs["C18"].Gen = func(tier string) []explore.Scenario {
		out := base(tier)
		probe := overlapParams{FEN: kP1, HaltAt: 1 << 30, Noise: 10000}
		sc := buildOverlap(mustJSON(probe))
		sc.Spec = mkSpec("overlap", probe)
		s, _ := explore.RunOnce(sc, nil)
		stride := 120
		if tier == "thorough" {
			stride = 25
		}
		for k := 0; k <= s.Steps; k += stride {
			p := overlapParams{FEN: kP1, HaltAt: k, Noise: 10000}
			sc := buildOverlap(mustJSON(p))
			sc.Spec = mkSpec("overlap", p)
			out = append(out, sc)
			// one of the engine's own goroutines is slow for a while after the halt
			for slow := 1; slow <= 4; slow++ {
				for _, until := range []int{60, 250} {
					q := overlapParams{FEN: kP1, HaltAt: k, Noise: 10000, Slow: slow, Until: until}
					sc := buildOverlap(mustJSON(q))
					sc.Spec = mkSpec("overlap", q)
					out = append(out, sc)
				}
			}
		}
		return out
	}
	Defs["C18"].Rule += "; and one engine with evaluation noise on whose depth-2 analysis is halted at a grid of instants and immediately followed by a depth-1 analysis: the second result must be one that some contiguous suffix of the seed's noise stream produces (600 offsets enumerated)"
}
