package mc

import (
	"context"
	"encoding/json"
	"fmt"
	"strconv"
	"strings"

	"github.com/herohde/morlock/pkg/engine"
	"github.com/herohde/morlock/pkg/engine/uci"
	"github.com/herohde/morlock/pkg/eval"
	"github.com/herohde/morlock/pkg/search"
	"verif/explore"
	"verif/gen/engines"
	"verif/ref"
	"verif/vs"
)

// uciParams describes one closed UCI scenario: an engine behind a real uci.Driver and a GUI
// thread that sends the script.
//
// Script tokens: a plain line is sent to the driver; "await" parks the GUI until the bestmove
// of the last go has arrived (or the driver has died); "await-ready" until the last isready is
// answered; a line starting with "!" is sent only once the scheduler has executed Release
// steps (the injection instant is an enumerated dimension of the scenario family).
type uciParams struct {
	Engine   string            `json:"engine"` // plain | morlock | turochamp | sargon | bernstein
	Flags    map[string]string `json:"flags,omitempty"`
	Script   []string          `json:"script"`
	Release  int               `json:"release"`
	Timer    int               `json:"timer"`               // step from which timers may fire
	Cap      int               `json:"cap,omitempty"`       // > 0: the driver's buffered channels are scaled down to this capacity
	Stall    int               `json:"stall,omitempty"`     // > 0: the GUI stops reading the output at this step ...
	StallFor int               `json:"stall_for,omitempty"` // ... for so many steps, or until nothing else can run
	Final    string            `json:"final"`               // quit | eof | none
	Horizon  int               `json:"horizon"`
	Oracle   string            `json:"oracle"` // c04 | c16
	Since    bool              `json:"since,omitempty"`
	Seed     int64             `json:"seed,omitempty"`
	Slow     int               `json:"slow,omitempty"`  // creation index of an engine goroutine that is held back (0 = none)
	Until    int               `json:"until,omitempty"` // ... until this many steps after the release instant
}

const startFEN = "rnbqkbnr/pppppppp/8/8/8/8/PPPPPPPP/RNBQKBNR w KQkq - 0 1"

// gameOf returns the game a position command describes (nil if it is malformed or illegal).
func gameOf(line string) *ref.Game {
	args := strings.Fields(line)
	if len(args) == 0 || args[0] != "position" {
		return nil
	}
	args = args[1:]
	start := startFEN
	if len(args) >= 7 && args[0] == "fen" {
		start = strings.Join(args[1:7], " ")
	}
	g, err := ref.GameFromFEN(start)
	if err != nil {
		return nil
	}
	mv := false
	for _, a := range args {
		if a == "moves" {
			mv = true
			continue
		}
		if !mv {
			continue
		}
		m, ok := g.Cur().FindMove(a)
		if !ok {
			return nil
		}
		g.Push(m)
	}
	return g
}

type uciEvent struct {
	Step int
	Kind string // sent, consumed, out, closed
	Text string
}

// uciRun is the observable record of one execution.
type uciRun struct {
	p             uciParams
	events        []uciEvent
	sent          []string // lines handed to the input channel, in order
	consumed      int      // how many of them the driver loop has taken
	in            chan string
	out           <-chan string
	driver        *uci.Driver
	outClosed     bool
	bestmoves     int
	readyoks      int
	guiDone       bool
	loopThread    string
	lastInfoDepth int
	stalled       bool // the GUI is not reading the output right now
}

func (r *uciRun) log(kind, text string) {
	r.events = append(r.events, uciEvent{vs.Step(), kind, text})
	vs.Log("%d %s %s", vs.Step(), kind, text)
}

func (r *uciRun) observe(step int) {
	// consumption of input lines: the channel has capacity 1 and a single sender
	for r.consumed < len(r.sent)-len(r.in) {
		r.log("consumed", r.sent[r.consumed])
		r.consumed++
		if n := vs.LastRun(); n != "" {
			r.loopThread = n // whoever just took a line from the input channel is the command loop
		}
	}
	for r.out != nil && !r.outClosed && !r.stalled {
		select {
		case l, ok := <-r.out:
			if !ok {
				r.outClosed = true
				r.log("closed", "output")
				return
			}
			switch {
			case strings.HasPrefix(l, "info depth "):
				fmt.Sscan(strings.TrimPrefix(l, "info depth "), &r.lastInfoDepth)
			case strings.HasPrefix(l, "bestmove"):
				r.bestmoves++
				r.log("out", fmt.Sprintf("%s @depth %d", l, r.lastInfoDepth))
				r.lastInfoDepth = -1
			case l == "readyok":
				r.readyoks++
				r.log("out", l)
			}
		default:
			return
		}
	}
}

func newEngine(ctx context.Context, p uciParams) (*engine.Engine, []uci.Option) {
	switch p.Engine {
	case "plain":
		return engine.New(ctx, "plain", "verif", search.AlphaBeta{Eval: search.Leaf{Eval: eval.Material{}}}), nil
	case "plainbook":
		// the plain engine with a generic opening book whose lines contain en passant captures
		bk, err := engine.NewBook([]engine.Line{
			{"e2e4", "a7a6", "e4e5", "d7d5", "e5d6"},
			{"e2e4", "a7a6", "e4e5", "f7f5", "e5f6"},
			{"d2d4", "h7h6", "d4d5", "e7e5", "d5e6"},
			{"d2d4", "h7h6", "d4d5", "c7c5", "d5c6"},
		})
		if err != nil {
			panic(err)
		}
		return engine.New(ctx, "plainbook", "verif", search.AlphaBeta{Eval: search.Leaf{Eval: eval.Material{}}}), []uci.Option{uci.UseBook(bk, p.Seed)}
	case "morlock":
		e, _, o := engines.Morlock(ctx, p.Seed, p.Flags)
		return e, o
	case "turochamp":
		e, _, o := engines.Turochamp(ctx, p.Seed, p.Flags)
		return e, o
	case "sargon":
		e, _, o := engines.Sargon(ctx, p.Seed, p.Flags)
		return e, o
	case "bernstein":
		e, _, o := engines.Bernstein(ctx, p.Seed, p.Flags)
		return e, o
	}
	panic("unknown engine " + p.Engine)
}

func buildUCI(params json.RawMessage) explore.Scenario {
	var p uciParams
	if err := json.Unmarshal(params, &p); err != nil {
		panic(err)
	}
	if p.Horizon == 0 {
		p.Horizon = 1500
	}
	return explore.Scenario{Horizon: p.Horizon, EnvSince: p.Since, TimerRelease: p.Timer, DelayThread: p.Slow, DelayUntil: p.Release + p.Until, ChanCap: p.Cap, Build: func() (func(), func(int), func(*vs.Sched) explore.Outcome) {
		r := &uciRun{p: p, lastInfoDepth: -1}
		main := func() {
			ctx := context.Background()
			e, opts := newEngine(ctx, p)
			r.in = make(chan string, 1)
			r.driver, r.out = uci.NewDriver(ctx, e, r.in, opts...)
			dead := func() bool { return r.outClosed }
			if p.Stall > 0 {
				// a GUI that stops reading for a while (and resumes at the latest when nothing else can run)
				vs.GoNamed("gui-reader", func() {
					vs.WaitStep("stall-begin", p.Stall)
					r.stalled = true
					r.log("gui", "stops reading")
					vs.WaitStep("stall-end", p.Stall+p.StallFor)
					r.stalled = false
					r.log("gui", "reads again")
					r.observe(vs.Step())
				})
			}
			for _, l := range p.Script {
				switch {
				case l == "await":
					want := 0
					for _, s := range r.sent {
						if strings.HasPrefix(s, "go") {
							want++
						}
					}
					vs.WaitUntil("await-bestmove", func() bool { return r.bestmoves >= want || dead() })
				case l == "await-ready":
					want := 0
					for _, s := range r.sent {
						if s == "isready" {
							want++
						}
					}
					vs.WaitUntil("await-readyok", func() bool { return r.readyoks >= want || dead() })
				default:
					if strings.HasPrefix(l, "!") {
						l = l[1:]
						if p.Release < 0 {
							vs.WaitLazy("release")
						} else {
							vs.WaitStep("release", p.Release)
						}
					}
					vs.WaitUntil("gui-send", func() bool { return len(r.in) < cap(r.in) || dead() })
					if dead() {
						r.guiDone = true
						return
					}
					r.in <- l
					r.sent = append(r.sent, l)
					r.log("sent", l)
				}
			}
			switch p.Final {
			case "quit":
				vs.WaitUntil("gui-send", func() bool { return len(r.in) < cap(r.in) || dead() })
				if !dead() {
					r.in <- "quit"
					r.sent = append(r.sent, "quit")
					r.log("sent", "quit")
				}
			case "eof":
				r.log("sent", "<eof>")
				vs.Close(r.in)
			}
			r.guiDone = true
		}
		verdict := func(s *vs.Sched) explore.Outcome {
			r.observe(s.Steps)
			if p.Oracle == "c04" {
				return r.verdictC04(s)
			}
			return r.verdictC16(s)
		}
		return main, r.observe, verdict
	}}
}

// class renders the observable outcome of an execution canonically.
func (r *uciRun) class(s *vs.Sched) string {
	var parts []string
	for _, e := range r.events {
		if e.Kind == "out" || e.Kind == "consumed" || e.Kind == "closed" {
			t := e.Text
			if len(t) > 24 {
				t = t[:24]
			}
			parts = append(parts, e.Kind[:1]+":"+t)
		}
	}
	return strings.Join(parts, "|") + " end=" + s.Summary() + " horizon=" + strconv.FormatBool(s.HitHorizon)
}

// goWindows pairs every consumed go with the position in effect and the bestmoves that follow.
type goWindow struct {
	line     string
	step     int
	game     *ref.Game // position last set up before the go (nil: unknown / malformed)
	answers  []string
	answerAt []int
	depths   []int // depth of the info line that preceded each answer (-1: none)
	seq      int   // index of the go in the sequence of consumed commands
	stopped  bool  // a stop was received while this go was the latest one
}

// windows attributes every bestmove to a go. The instant at which a superseding command takes
// effect lies somewhere inside its handler and cannot be seen from outside, so a bestmove may
// still answer an earlier, unanswered go until the loop has demonstrably finished handling a
// superseding command (= it has taken a further command). A bestmove goes to the earliest go
// that is still open in that sense and for whose position it is a legal move; one that fits no
// open go is a problem (stale, duplicate or unsolicited).
func (r *uciRun) windows() ([]*goWindow, []string) {
	var ws []*goWindow
	var problems []string
	var game *ref.Game
	game, _ = ref.GameFromFEN(startFEN)
	var consumed []string
	for _, e := range r.events {
		switch e.Kind {
		case "consumed":
			consumed = append(consumed, e.Text)
			switch {
			case strings.HasPrefix(e.Text, "position"):
				game = gameOf(e.Text)
			case strings.HasPrefix(e.Text, "go"):
				ws = append(ws, &goWindow{line: e.Text, step: e.Step, game: game, seq: len(consumed) - 1})
			case e.Text == "stop":
				if len(ws) > 0 {
					ws[len(ws)-1].stopped = true
				}
			}
		case "out":
			if !strings.HasPrefix(e.Text, "bestmove") {
				continue
			}
			mv := strings.Fields(e.Text)[1]
			depth := -1
			if i := strings.Index(e.Text, "@depth "); i >= 0 {
				fmt.Sscan(e.Text[i+7:], &depth)
			}
			if len(ws) == 0 {
				problems = append(problems, fmt.Sprintf("bestmove %s at step %d before any go was received", mv, e.Step))
				continue
			}
			// surely superseded: a superseding command after w, and a further command consumed after that
			// one (so the loop has finished handling it)
			surely := func(w *goWindow) (bool, string) {
				for i := w.seq + 1; i < len(consumed); i++ {
					if strings.HasPrefix(consumed[i], "position") || strings.HasPrefix(consumed[i], "go") || consumed[i] == "ucinewgame" {
						if i+1 < len(consumed) {
							return true, consumed[i]
						}
					}
				}
				return false, ""
			}
			var target *goWindow
			for _, w := range ws {
				if len(w.answers) > 0 {
					continue
				}
				if superseded, _ := surely(w); superseded {
					continue
				}
				if ok, _ := legalAnswer(w.game, mv); !ok && mv != "0000" {
					continue
				}
				target = w
				break
			}
			if target == nil {
				last := ws[len(ws)-1]
				if sup, by := surely(last); sup && len(last.answers) == 0 {
					// every go is answered or superseded: this is the answer of a search the driver had been told to abandon
					problems = append(problems, fmt.Sprintf("bestmove %s at step %d answers '%s', which '%s' had superseded before (and the driver had gone on to the next command)", mv, e.Step, last.line, by))
					continue
				}
				target = last // fits no open go: shows up there as a second or an illegal answer
			}
			target.answers = append(target.answers, mv)
			target.answerAt = append(target.answerAt, e.Step)
			target.depths = append(target.depths, depth)
		}
	}
	return ws, problems
}

func legalAnswer(g *ref.Game, mv string) (bool, string) {
	if g == nil {
		return true, ""
	}
	legal := g.Cur().Legal()
	if mv == "0000" {
		if len(legal) > 0 {
			return false, fmt.Sprintf("bestmove 0000 although %s has %d legal moves", g.FEN(), len(legal))
		}
		return true, ""
	}
	for _, m := range legal {
		if m.String() == mv {
			return true, ""
		}
	}
	return false, fmt.Sprintf("bestmove %s is not a legal move in %s", mv, g.FEN())
}

func (r *uciRun) script() string { return strings.Join(r.p.Script, "; ") }

func (r *uciRun) verdictC04(s *vs.Sched) explore.Outcome {
	o := explore.Outcome{Class: r.class(s)}
	if len(s.Panics) > 0 {
		o.Violation, o.Msg = "C04/panic "+panicSig(s.Panics[0]), shortPanic(s.Panics[0])+"\n    script: "+r.script()
		return o
	}
	ws, problems := r.windows()
	if len(problems) > 0 {
		o.Violation, o.Msg = "C04/unsolicited-bestmove "+r.p.Engine, problems[0]
		return o
	}
	for i, w := range ws {
		if len(w.answers) > 1 {
			o.Violation, o.Msg = "C04/two-bestmoves "+r.p.Engine+" "+w.line, fmt.Sprintf("'%s' was answered %d times: %v (script: %s)", w.line, len(w.answers), w.answers, r.script())
			return o
		}
		if len(w.answers) == 1 {
			if ok, why := legalAnswer(w.game, w.answers[0]); !ok {
				cls := "illegal-bestmove"
				if w.answers[0] == "0000" {
					cls = "null-bestmove"
				}
				o.Violation, o.Msg = fmt.Sprintf("C04/%s %s go#%d '%s'", cls, r.p.Engine, i+1, w.line), why+" (script: "+r.script()+")"
				return o
			}
		}
	}
	// a GUI that waits for an answer forever: the go is never answered
	for _, b := range s.Blocked {
		if strings.HasPrefix(b, "main:await-bestmove") {
			if s.HitHorizon {
				o.Inconclusive = true
				return o
			}
			last := "?"
			if len(ws) > 0 {
				last = ws[len(ws)-1].line
			}
			o.Violation, o.Msg = fmt.Sprintf("C04/no-bestmove %s '%s'", r.p.Engine, last), fmt.Sprintf("the GUI waits forever: '%s' is never answered by a bestmove (script: %s; parked: %s)", last, r.script(), strings.Join(s.Blocked, ","))
			return o
		}
	}
	if s.HitHorizon {
		if !r.guiDone {
			o.Inconclusive = true
		}
		return o
	}
	// the run is over (everything is parked or finished): a go that was received must have its answer,
	// also when the driver terminated instead of answering (the GUI of these scripts always awaits)
	for i, w := range ws {
		if len(w.answers) == 0 {
			o.Violation = fmt.Sprintf("C04/unanswered-go %s go#%d '%s'", r.p.Engine, i+1, w.line)
			o.Msg = fmt.Sprintf("'%s' (go #%d) was received but never answered by a bestmove; output closed=%v (script: %s; parked: %s)", w.line, i+1, r.outClosed, r.script(), strings.Join(s.Blocked, ","))
			return o
		}
	}
	return o
}

func (r *uciRun) verdictC16(s *vs.Sched) explore.Outcome {
	o := explore.Outcome{Class: r.class(s)}
	if len(s.Panics) > 0 {
		o.Violation, o.Msg = "C16/panic "+panicSig(s.Panics[0]), shortPanic(s.Panics[0])+"\n    script: "+r.script()
		return o
	}
	// every isready received is answered before the next command is taken
	pending := 0
	for _, e := range r.events {
		switch {
		case e.Kind == "consumed" && e.Text == "isready":
			pending++
		case e.Kind == "out" && e.Text == "readyok":
			pending--
			if pending < 0 {
				o.Violation, o.Msg = "C16/extra-readyok", "readyok without isready (script: "+r.script()+")"
				return o
			}
		}
	}
	// stale / foreign answers
	ws, problems := r.windows()
	if len(problems) > 0 {
		o.Violation, o.Msg = "C16/unsolicited-bestmove", problems[0]+" (script: "+r.script()+")"
		return o
	}
	for i, w := range ws {
		if len(w.answers) > 1 {
			o.Violation, o.Msg = "C16/two-bestmoves "+w.line, fmt.Sprintf("'%s' was answered %d times: %v (script: %s)", w.line, len(w.answers), w.answers, r.script())
			return o
		}
		// a plain `go depth N` that nobody stopped can only end by completing depth N: an answer from a
		// shallower iteration means the search was cut short by a superseding command and answered anyway
		var n int
		if _, err := fmt.Sscanf(w.line, "go depth %d", &n); err == nil && len(strings.Fields(w.line)) == 3 && !w.stopped && len(w.answers) == 1 && w.depths[0] >= 0 && w.depths[0] < n && w.game != nil && len(w.game.Cur().Legal()) > 0 {
			o.Violation = fmt.Sprintf("C16/superseded-search-answered go#%d", i+1)
			o.Msg = fmt.Sprintf("'%s' (go #%d) was answered from depth %d although nobody stopped it: the search was cut short by a superseding command and its result was emitted anyway (script: %s)", w.line, i+1, w.depths[0], r.script())
			return o
		}
		for _, a := range w.answers {
			if ok, why := legalAnswer(w.game, a); !ok && a != "0000" {
				o.Violation = fmt.Sprintf("C16/stale-bestmove go#%d", i+1)
				o.Msg = fmt.Sprintf("the answer to go #%d ('%s') belongs to another search: %s (script: %s)", i+1, w.line, why, r.script())
				return o
			}
		}
	}
	if s.HitHorizon {
		o.Inconclusive = true
		return o
	}
	// quiescent end: nothing is enabled any more
	loopParked, guiParked := "", ""
	for _, b := range s.Blocked {
		if r.loopThread != "" && strings.HasPrefix(b, r.loopThread+":") {
			loopParked = b
		}
		if strings.HasPrefix(b, "main:") {
			guiParked = b
		}
	}
	if pending > 0 && !r.outClosed {
		o.Violation, o.Msg = "C16/isready-unanswered", fmt.Sprintf("an isready was never answered (script: %s; parked: %s)", r.script(), strings.Join(s.Blocked, ","))
		return o
	}
	if loopParked != "" && !strings.HasSuffix(loopParked, ":select") {
		o.Violation, o.Msg = "C16/deadlock-loop "+loopParked, fmt.Sprintf("the command loop is stuck inside a handler (%s) (script: %s; parked: %s)", loopParked, r.script(), strings.Join(s.Blocked, ","))
		return o
	}
	if guiParked != "" && !r.outClosed && !strings.Contains(guiParked, "await-bestmove") {
		o.Violation, o.Msg = "C16/deadlock-gui "+guiParked, fmt.Sprintf("the GUI is blocked on a live driver (%s) (script: %s)", guiParked, r.script())
		return o
	}
	if r.p.Final == "quit" || r.p.Final == "eof" {
		if !r.outClosed || !r.driver.IsClosed() {
			o.Violation, o.Msg = "C16/unclean-shutdown", fmt.Sprintf("after %s the output channel closed=%v, driver closed=%v (script: %s; parked: %s)", r.p.Final, r.outClosed, r.driver.IsClosed(), r.script(), strings.Join(s.Blocked, ","))
			return o
		}
	}
	return o
}

func init() {
	Builders["uci"] = buildUCI
}

// panicSig drops the thread name from a recorded panic ("g3: send on closed channel").
func panicSig(p string) string {
	l := firstLine(p)
	if i := strings.Index(l, ": "); i >= 0 {
		l = l[i+2:]
	}
	return l
}

// shortPanic keeps the message and the morlock frames of a recorded panic.
func shortPanic(p string) string {
	var keep []string
	for i, l := range strings.Split(p, "\n") {
		if i == 0 || strings.Contains(l, "/repo/") || strings.Contains(l, "herohde/morlock") {
			keep = append(keep, strings.TrimSpace(l))
		}
	}
	if len(keep) > 9 {
		keep = keep[:9]
	}
	return strings.Join(keep, "\n      ")
}
