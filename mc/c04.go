package mc

import (
	"encoding/json"
	"fmt"
	"strings"

	"verif/explore"
)

const (
	kMate1      = "k7/8/1K6/8/8/8/8/7R w - - 0 1"                                                              // White mates in 1 (14+ moves: keep depth 1)
	kMated      = "R6k/8/6K1/8/8/8/8/8 b - - 0 1"                                                              // Black is checkmated: no legal move
	kStale      = "7k/5Q2/6K1/8/8/8/8/8 b - - 0 1"                                                             // Black is stalemated: no legal move
	kFortress   = "k7/p7/P7/8/8/7p/7P/7K w - - 0 1"                                                            // kings shuffle: 1-3 legal moves
	kClock100   = "7k/8/8/8/8/8/8/K7 w - - 100 80"                                                             // fifty-move limit already reached at set-up
	kRepetition = "position fen k7/p7/P7/8/8/7p/7P/7K w - - 0 1 moves h1g1 a8b8 g1h1 b8a8 h1g1 a8b8 g1h1 b8a8" // third occurrence: a draw could be claimed
)

type c04setup struct {
	name string
	line string
}

func c04Setups() []c04setup {
	return []c04setup{
		{"kvk", "position fen " + kP1},
		{"kvk-black", "position fen " + kP2},
		{"checkmated", "position fen " + kMated},
		{"stalemated", "position fen " + kStale},
		{"claimable-threefold", kRepetition},
		{"clock-100", "position fen " + kClock100},
		{"fortress", "position fen " + kFortress},
		{"fortress-moves", "position fen " + kFortress + " moves h1g1 a8b8"},
		// draws the board records while moves are played and that are NOT claims: the position still has legal moves
		{"insufficient-after-capture", "position fen 8/8/8/3k4/8/3n4/3K4/8 w - - 0 60 moves d2d3"},
		{"fivefold", "position fen " + kFortress + " moves h1g1 a8b8 g1h1 b8a8 h1g1 a8b8 g1h1 b8a8 h1g1 a8b8 g1h1 b8a8 h1g1 a8b8 g1h1 b8a8"},
	}
}

// c04Scripts: engine x options x set-up x go variant. Searches are kept tiny (every poll of the
// search is a scheduling point).
func c04Scripts(tier string) []uciParams {
	type eng struct {
		name  string
		flags map[string]string
		opts  []string // setoption lines
	}
	engs := []eng{
		{"plain", nil, nil},
		{"morlock", nil, []string{"setoption name Hash value 1"}},
		{"morlock", nil, []string{"setoption name Hash value 0"}},
		{"turochamp", map[string]string{"noise": "0"}, nil},
		{"turochamp", nil, []string{"setoption name Noise value 10"}},
		{"sargon", nil, []string{"setoption name OwnBook value false"}},
		{"bernstein", map[string]string{"ply": "2"}, []string{"setoption name OwnBook value false"}},
	}
	gos := [][]string{
		{"go depth 1", "await"},
		{"go depth 2", "await"},
		{"go infinite", "!stop", "await"},
		{"go depth 2", "!stop", "await"},
		{"go movetime 5", "await"},
		{"go wtime 1000 btime 1000", "await"},
		{"go wtime 1000 btime 1000 movestogo 10", "await"},
		{"go depth 1", "await", "go depth 1", "await"},
		{"go depth 1", "await", "go infinite", "!stop", "await"},
		{"go depth 1 movetime 5", "await", "go infinite", "!stop", "await"}, // the movetime timer of an answered go outlives it
		{"go wtime 1000 winc 10 btime 1000 binc 10 movestogo 10", "await"},  // parameters the driver does not handle sit between those it does (@kvk)
		{"go infinite movetime 5", "!stop", "await"},                        // contradictory orders: whatever the timer does, the stop must be answered (@kvk)
		{"go infinite depth 1", "!stop", "await"},                           // the analysis ends by itself at depth 1; "infinite" means the answer waits for the stop (@kvk)
		{"go wtime 1000 btime 1000 movestogo 9223372036854775807", "await"}, // counters at the edge of their type (@kvk)
		{"go nodes 50 mate 2", "!stop", "await"},                            // only unhandled limits: runs until stopped (@kvk)
		{"go depth 2", "!stop", "await", "@other", "go depth 1", "await"},   // a stop racing with the natural end of the search, then another position: whatever is left of the first search must not answer the second
		{"go depth 1", "!stop", "await", "@other", "go infinite", "stop", "await"},
	}
	var out []uciParams
	for ei, e := range engs {
		for si, st := range c04Setups() {
			for gi, g := range gos {
				if tier != "thorough" && e.name != "plain" && (ei+si+gi)%4 != 0 {
					continue // quick: every engine sees every set-up and every go variant, but not every combination
				}
				if e.name != "plain" && st.name == "fortress-moves" && tier != "thorough" {
					continue
				}
				if gl := strings.Join(g, " "); (strings.Contains(gl, "@other") || strings.Contains(gl, "winc") || strings.Contains(gl, "nodes") || strings.Contains(gl, "infinite movetime") || strings.Contains(gl, "infinite depth") || strings.Contains(gl, "9223372036854775807")) && st.name != "kvk" && st.name != "kvk-black" && tier != "thorough" {
					continue // quick: the two-position scripts on the K v K set-ups only
				}
				if (st.name == "insufficient-after-capture" || st.name == "fivefold") && tier != "thorough" && e.name != "plain" && ei != 1 {
					continue // quick: the plain engine and one bundled engine
				}
				script := append([]string{}, e.opts...)
				script = append(script, st.line)
				for _, l := range g {
					if l == "@other" { // K v K with the OTHER side to move: a move of the first position is illegal here
						l = "position fen " + kP2
						if strings.Contains(st.line, " b ") {
							l = "position fen " + kP1
						}
					}
					script = append(script, l)
				}
				horizon := 900
				if strings.Contains(strings.Join(g, " "), "infinite") {
					horizon = 600
				}
				out = append(out, uciParams{Engine: e.name, Flags: e.flags, Script: script, Final: "quit", Oracle: "c04", Horizon: horizon, Seed: 7})
			}
		}
	}
	// the bare go of the bundled engines (their own default depth) and the book
	for _, e := range []string{"sargon", "bernstein"} {
		for seed := int64(0); seed < 3; seed++ {
			out = append(out, uciParams{Engine: e, Script: []string{"position startpos", "go", "await"}, Final: "quit", Oracle: "c04", Horizon: 900, Seed: seed})
			out = append(out, uciParams{Engine: e, Script: []string{"position startpos moves e2e4", "go", "await"}, Final: "quit", Oracle: "c04", Horizon: 900, Seed: seed})
		}
	}
	out = append(out, uciParams{Engine: "sargon", Flags: map[string]string{"noise": "0"}, Script: []string{"setoption name OwnBook value false", "position fen " + kP1, "go", "await", "go", "await"}, Final: "quit", Oracle: "c04", Horizon: 900})
	out = append(out, uciParams{Engine: "turochamp", Script: []string{"position fen " + kP1, "go", "await"}, Final: "quit", Oracle: "c04", Horizon: 1500})
	// a generic opening book with en passant lines: inside the line, after a transposition that
	// reaches the same placement WITHOUT the e.p. target (two single steps), and past the line
	for seed := int64(0); seed < 2; seed++ {
		for _, line := range []string{
			"position startpos moves e2e4 a7a6 e4e5 d7d5",
			"position startpos moves e2e3 a7a6 e3e4 d7d6 e4e5 d6d5",
			"position startpos moves d2d4 h7h6 d4d5 c7c5",
			"position startpos moves d2d3 h7h6 d3d4 c7c6 d4d5 c6c5",
			"position startpos moves e2e4 a7a6 e4e5 d7d5 e5d6",
			"position startpos",
		} {
			out = append(out, uciParams{Engine: "plainbook", Script: []string{"setoption name OwnBook value true", line, "go depth 1", "await"}, Final: "quit", Oracle: "c04", Horizon: 900, Seed: seed})
		}
	}
	// the engine's own depth option bounds a bare go
	out = append(out, uciParams{Engine: "plain", Script: []string{"setoption name Depth value 2", "position fen " + kP1, "go", "await", "setoption name Depth value 1", "go", "await"}, Final: "quit", Oracle: "c04", Horizon: 900})
	out = append(out, uciParams{Engine: "morlock", Script: []string{"setoption name Depth value 1", "setoption name Hash value 1", "position fen " + kP2, "go", "await"}, Final: "quit", Oracle: "c04", Horizon: 900})
	out = append(out, uciParams{Engine: "morlock", Script: []string{"setoption name Hash value 1", "position fen " + kP1, "go depth 2", "await", "go depth 2", "await"}, Final: "quit", Oracle: "c04", Horizon: 900})
	return out
}

func init() {
	Defs["C04"] = &Def{
		ID:   "C04",
		Rule: "engine (plain alpha-beta + the four bundled engines, constructed by code LIFTED from cmd/*/main.go at check time) x options (Hash 0/1, Noise, OwnBook on/off, flags) x set-up (K v K both colours, checkmated, stalemated, claimable three-fold via moves, five-fold via moves, bare kings after a capture played in the moves list, half-move clock 100, fortress with and without moves, start position with book; a generic book with en passant lines on positions inside, transposed into and past its lines) x go variant (depth 1/2, bare, movetime, wtime/btime(+movestogo, also movestogo at the edge of its integer type), infinite->stop, infinite with a movetime or a depth limit ->stop, depth->stop, go;await;go, go;await;go infinite;stop, go;stop;await;other position;go;await). The GUI awaits each bestmove; `stop` is released (a) as a lazy thread at ANY scheduling point for one deviation, timers likewise, and (b) at scheduler step k for a grid of k over the whole unstopped run, timers likewise, each engine goroutine in turn held back for 80 steps after the stop (slow-thread dimension); all schedules within the deviation bound. Oracle per execution: every go answered by exactly one bestmove (a GUI parked forever on await = missing answer), the move is reference-legal in the position last set up, 0000 iff that position has no legal move. Conformance of the lifted engines with the shipped ones: the REAL binaries (built from the tree under test; real logger, real stdin/stdout plumbing) and the lifted engines run the same 14 UCI sessions x 5 engine configurations (noise off), incl. end of input, unknown lines, other white space, options, an overstepped clock, an under-promotion in the moves list: everything printed except info lines must be identical line for line (book sessions: answered and ended), one bestmove per go, exit status 0 on quit and on end of input. distinct_nontrivial = distinct event-log classes",
		Gen: func(tier string) []explore.Scenario {
			var out []explore.Scenario
			for _, p := range c04Scripts(tier) {
				hasRelease := false
				for _, l := range p.Script {
					if strings.HasPrefix(l, "!") {
						hasRelease = true
					}
				}
				if !hasRelease {
					for _, timer := range []int{0, 40, 160} {
						q := p
						q.Timer = timer
						out = append(out, uciScenario(q))
						if !strings.Contains(strings.Join(p.Script, " "), "time") {
							break
						}
					}
					continue
				}
				l := measure(p)
				stride := 30
				if tier == "thorough" {
					stride = 12
				}
				max := l
				if max > 320 {
					max = 320
				}
				timed := strings.Contains(strings.Join(p.Script, " "), "time")
				lz := p
				lz.Release, lz.Timer = -1, -1 // stop and timers as lazy threads: any instant, one deviation each
				out = append(out, uciScenario(lz))
				for k := 0; k <= max; k += stride {
					q := p
					q.Release = k
					out = append(out, uciScenario(q))
					if (tier == "thorough" && k%(2*stride) == 0) || (p.Engine == "plain" && k%(4*stride) == 0 && strings.Contains(strings.Join(p.Script, " "), "infinite")) {
						// one engine goroutine is slow for a while after the stop arrives
						for slow := 2; slow <= 5; slow++ {
							r := p
							r.Release, r.Slow, r.Until = k, slow, 80
							out = append(out, uciScenario(r))
						}
					}
					if timed && k > 0 && (tier == "thorough" || p.Engine == "plain" || k%(2*stride) == 0) { // timers fire half-way to / three quarters of the way to the stop
						q.Timer = k / 2
						out = append(out, uciScenario(q))
						q.Timer = 3 * k / 4
						out = append(out, uciScenario(q))
					}
				}
			}
			return out
		},
		Setup: binaryConformance,
		Bound: func(tier string, sc explore.Scenario) int {
			var p uciParams
			_ = json.Unmarshal(sc.Spec.Params, &p)
			if tier == "thorough" && p.Engine == "plain" && p.Slow == 0 && p.Timer == 0 {
				return 2 // attempted after every scenario has been explored to bound 1
			}
			return 1
		},
	}
	_ = fmt.Sprint
}
