// Package mc holds the interleaving (E2) checks: scenarios over the real, AST-rewritten
// morlock goroutines explored exhaustively within a deviation bound.
package mc

import (
	"encoding/json"
	"fmt"
	"io"
	"os"
	"os/exec"
	"runtime"
	"sort"
	"strconv"
	"strings"
	"sync"
	"time"

	"verif/explore"
	"verif/harness"
	"verif/vs"
)

// Def describes the check of one property.
type Def struct {
	ID    string
	Rule  string
	Gen   func(tier string) []explore.Scenario       // the scenarios of a tier
	Bound func(tier string, sc explore.Scenario) int // deviation bound per scenario
	Setup func(c *harness.Check)                     // extra evidence fields / sequential parts
	// RacesAreViolations: the property itself forbids data races (the verdict reports them);
	// otherwise racing access sites are promoted to scheduling points and the check re-run.
	RacesAreViolations bool
}

var Defs = map[string]*Def{}

// Builders rebuild a scenario from its spec (for workers and replays).
var Builders = map[string]func(params json.RawMessage) explore.Scenario{}

func Build(spec explore.Spec) explore.Scenario {
	b, ok := Builders[spec.Kind]
	if !ok {
		fmt.Fprintln(os.Stderr, "HARNESS-ERROR: no scenario builder for kind", spec.Kind)
		os.Exit(2)
	}
	sc := b(spec.Params)
	sc.Spec = spec
	return sc
}

func mkSpec(kind string, params any) explore.Spec {
	js, err := json.Marshal(params)
	if err != nil {
		panic(err)
	}
	return explore.Spec{Kind: kind, Params: js}
}

func deadlineFor(tier string) time.Duration {
	secs := 300.0
	if tier == "thorough" {
		secs = 6000
	}
	if s := os.Getenv("VERIF_DEADLINE_S"); s != "" {
		if v, err := strconv.ParseFloat(s, 64); err == nil {
			secs = v
		}
	}
	return time.Duration(secs * float64(time.Second))
}

// Worker explores the scenarios i, i+n, i+2n, ... of the check and prints its statistics as JSON.
// The deviation bound is iterated in the OUTER loop (all scenarios at bound 0, then all at bound
// 1, ...), so that when a deadline strikes the largest bound completed for EVERY scenario is
// well defined and as large as possible.
func Worker(id, tier string, i, n int) {
	def := Defs[id]
	explore.SetPromoted(strings.Split(os.Getenv("VERIF_PROMOTE"), ","))
	scs := def.Gen(tier)
	deadline := time.Now().Add(deadlineFor(tier))
	type state struct {
		sc     explore.Scenario
		bound  int
		last   *explore.Stats
		done   int  // largest bound completed (-1: none)
		closed bool // nothing left to explore (requested bound reached or every interleaving covered)
		all    bool // every interleaving covered
		seen   map[string]bool
		found  []explore.Found
	}
	var sts []*state
	maxBound := 0
	for k := i; k < len(scs); k += n {
		st := &state{sc: scs[k], bound: def.Bound(tier, scs[k]), done: -1, seen: map[string]bool{}}
		if v, err := strconv.Atoi(os.Getenv("VERIF_BOUND")); err == nil {
			st.bound = v // experiments only
		}
		if st.bound > maxBound {
			maxBound = st.bound
		}
		sts = append(sts, st)
	}
	capped := false
	for _, b := range boundSequence(maxBound) {
		for _, st := range sts {
			if st.closed || capped {
				continue
			}
			bb := b
			if bb > st.bound {
				bb = st.bound
			}
			if bb <= st.done {
				st.closed = true
				continue
			}
			stats := explore.NewStats()
			e := &explore.Explorer{Bound: bb, Deadline: deadline, Stats: stats}
			ok := e.Explore(st.sc)
			for _, f := range stats.Found {
				if !st.seen[f.Violation] {
					st.seen[f.Violation] = true
					st.found = append(st.found, f)
				}
			}
			if !ok {
				capped = true
				break
			}
			st.last, st.done = stats, bb
			if stats.Pruned == 0 || bb >= st.bound {
				st.closed = true
				if stats.Pruned == 0 {
					st.done = st.bound // nothing was cut by the bound: every interleaving has been explored
					st.all = true
				}
			}
		}
	}
	// Race-directed phase (only in a refinement round, i.e. when racing sites are known): every
	// scenario whose exploration showed a race is explored again with two more deviations, which
	// may only be spent around the racing accesses or on running a lazy thread.
	focusStats := explore.NewStats()
	if len(vs.Promoted) > 0 && !def.RacesAreViolations {
		for _, st := range sts {
			if capped || st.last == nil || len(st.last.Races) == 0 {
				continue
			}
			fs := explore.NewStats()
			e := &explore.Explorer{Bound: st.done + 2, Focus: true, Deadline: deadline, Stats: fs}
			if st.done >= 1000 {
				continue
			}
			ok := e.Explore(st.sc)
			for _, f := range fs.Found {
				if !st.seen[f.Violation] {
					st.seen[f.Violation] = true
					st.found = append(st.found, f)
				}
			}
			focusStats.Focused += fs.Executions
			focusStats.FocusedScen++
			focusStats.Steps += fs.Steps
			if !ok {
				capped = true
			}
		}
	}
	total := explore.NewStats()
	total.Capped = capped
	total.Merge(focusStats)
	minDone := 1 << 30
	for _, st := range sts {
		if st.last != nil {
			st.last.Found = nil
			total.Merge(st.last)
		}
		total.Found = append(total.Found, st.found...)
		if st.all {
			total.DoneAt["all interleavings"]++
		} else {
			total.DoneAt[fmt.Sprintf("bound=%d", st.done)]++
		}
		if st.done < minDone {
			minDone = st.done
		}
	}
	if minDone == 1<<30 {
		minDone = -1
	}
	total.BoundDone = minDone
	js, _ := json.Marshal(total)
	fmt.Println("STATS " + string(js))
}

// Main runs the check of one property: shards its scenarios over worker processes, merges
// their statistics, confirms every violation by replaying it twice, and writes the evidence.
func Main(id, tier string) {
	def, ok := Defs[id]
	if !ok {
		fmt.Fprintln(os.Stderr, "HARNESS-ERROR: unknown check", id)
		os.Exit(2)
	}
	c := harness.New(id, tier, "mc")
	c.Rule = def.Rule
	scs := def.Gen(tier)
	n := runtime.NumCPU()
	if w := os.Getenv("VERIF_WORKERS"); w != "" {
		if v, err := strconv.Atoi(w); err == nil && v > 0 {
			n = v
		}
	}
	if n > len(scs) {
		n = len(scs)
	}
	// Refinement: a data race means that the racing accesses can interleave more finely than
	// the scheduling points at synchronisation operations allow for. The sites of every race
	// seen become scheduling points themselves and the whole check is run again, until no new
	// racing site appears (a check whose property forbids races outright reports them itself).
	var promoted []string
	var total *explore.Stats
	minDone := 1 << 30
	var refinement []string
	for round := 0; ; round++ {
		total, minDone = runWorkers(id, tier, n, promoted)
		fresh := false
		have := map[string]bool{}
		for _, p := range promoted {
			have[p] = true
		}
		for r := range total.Races {
			for _, part := range strings.Split(r, " || ") {
				site := part[strings.Index(part, "@")+1:]
				if !have[site] {
					have[site] = true
					promoted = append(promoted, site)
					fresh = true
				}
			}
		}
		sort.Strings(promoted)
		if !fresh || def.RacesAreViolations || round >= 3 || total.Capped {
			break
		}
		refinement = append(refinement, fmt.Sprintf("round %d: %d racing access pairs; %d sites become scheduling points", round, len(total.Races), len(promoted)))
		fmt.Fprintf(os.Stderr, "%s: data races seen (%d pairs): re-running with %d access sites as scheduling points\n", id, len(total.Races), len(promoted))
	}
	explore.SetPromoted(promoted)
	c.States.Store(total.Points + total.Executions)
	c.Transitions.Store(total.Steps)
	c.Traces.Store(total.Executions)
	c.Evaluations.Store(total.Executions)
	for k := range total.Outcomes {
		c.Distinct(k)
	}
	if total.Diverged > 0 {
		c.Exhaustive = false
		c.SetExtra("executions_diverged_from_their_replayed_prefix", total.Diverged)
		c.Note("%d executions did not reproduce the prefix they were replaying: the code under test carries state from one execution to the next (package-level or pooled state) or uses nondeterminism the scheduler does not own; those schedules were set aside, not judged", total.Diverged)
	}
	if total.Capped {
		c.Exhaustive = false
		c.Note("an internal deadline stopped the enumeration of some scenario; largest deviation bound completed for every scenario: %d", minDone)
	}
	maxBound := 0
	for _, sc := range scs {
		if b := def.Bound(tier, sc); b > maxBound {
			maxBound = b
		}
	}
	c.SetExtra("scenarios", len(scs))
	c.SetExtra("deviation_bound_requested_max", maxBound)
	c.SetExtra("deviation_bound_completed_all_scenarios", minDone)
	c.SetExtra("alternatives_cut_by_bound", total.Pruned)
	c.SetExtra("scenarios_by_largest_bound_completed", total.DoneAt)
	c.SetExtra("executions_where_threads_met", total.Met)
	c.SetExtra("horizon_cut_executions_inconclusive", total.Inconclusive)
	c.SetExtra("max_steps_per_execution", total.MaxSteps)
	c.SetExtra("distinct_outcome_classes", len(total.Outcomes))
	if os.Getenv("VERIF_NOACCESS") != "" {
		c.Note("the overlay with plain-access instrumentation did not build on this tree: this run had no data-race detection")
	} else {
		c.SetExtra("plain_accesses_clock_checked", total.Accesses)
		var races []string
		for r, k := range total.Races {
			races = append(races, fmt.Sprintf("%s (%d executions)", r, k))
		}
		sort.Strings(races)
		c.SetExtra("data_races", races)
		if len(refinement) > 0 {
			c.SetExtra("race_directed_executions", total.Focused)
			c.SetExtra("race_directed_scenarios", total.FocusedScen)
			c.SetExtra("race_refinement", refinement)
			c.SetExtra("access_sites_promoted_to_scheduling_points", promoted)
		}
	}
	// a few outcome classes for the reader
	var classes []string
	for k, v := range total.Outcomes {
		classes = append(classes, fmt.Sprintf("%dx %s", v, k))
	}
	sort.Strings(classes)
	if len(classes) > 8 {
		classes = classes[:8]
	}
	c.SetExtra("outcome_examples", classes)
	var cut []string
	for k, v := range total.Outcomes {
		if strings.Contains(k, "horizon=true") {
			cut = append(cut, fmt.Sprintf("%dx %s", v, k))
		}
	}
	sort.Strings(cut)
	if len(cut) > 6 {
		cut = cut[:6]
	}
	if len(cut) > 0 {
		c.SetExtra("horizon_cut_examples", cut)
	}
	for i, sc := range scs {
		if i%(len(scs)/4+1) == 0 {
			c.Sample(map[string]any{"scenario": sc.Spec.Kind, "params": sc.Spec.Params, "bound": def.Bound(tier, sc), "horizon": sc.Horizon})
		}
	}
	embed := os.Getenv("VERIF_EMBED") != ""
	var confirmed []explore.Found
	unconfirmed := 0
	// confirm violations: the same schedule must fail the same way twice
	for _, f := range total.Found {
		sc := Build(f.Spec)
		explore.SetPromoted(f.Promoted)
		_, o1 := explore.RunOnce(sc, f.Choices)
		_, o2 := explore.RunOnce(sc, f.Choices)
		if o1.Violation != f.Violation || o2.Violation != f.Violation {
			if total.Diverged > 0 || o1.Diverged || o2.Diverged {
				// executions are not reproducible on this tree (see the note above): a violation that does
				// not fail the same way every time is not reported
				unconfirmed++
				continue
			}
			fmt.Fprintf(os.Stderr, "HARNESS-ERROR: violation %q did not reproduce on replay (got %q, %q): uncaptured nondeterminism\n", f.Violation, o1.Violation, o2.Violation)
			os.Exit(2)
		}
		dev := 0
		for _, ch := range f.Choices {
			if ch != 0 {
				dev++
			}
		}
		f.Msg = fmt.Sprintf("%s\n    scenario %s, schedule with %d deviations (replayed twice, identical)", f.Msg, f.Spec, dev)
		confirmed = append(confirmed, f)
		if !embed {
			c.Violation(f.Violation, f.Msg, "mc/schedule", f)
		}
	}
	if unconfirmed > 0 {
		c.SetExtra("violations_not_reproducible_dropped", unconfirmed)
	}
	for _, t := range workerCrashes {
		c.Exhaustive = false
		first := t
		if i := strings.Index(t, "fatal error: "); i >= 0 {
			first = t[i:]
		} else if i := strings.Index(t, "panic: "); i >= 0 {
			first = t[i:]
		}
		line := firstLine(first)
		if len(first) > 3000 {
			first = first[:3000]
		}
		if !embed {
			c.Violation(id+"/crash "+line, "the code under test crashed an explorer worker (what that worker had covered is lost):\n"+first, "panic", map[string]string{"check": id, "tier": tier})
		} else {
			confirmed = append(confirmed, explore.Found{Violation: id + "/crash " + line, Msg: "the code under test crashed an explorer worker:\n" + first})
		}
	}
	if embed {
		total.Found = nil
		js, _ := json.Marshal(Embedded{Stats: total, Scenarios: len(scs), BoundDone: minDone, Confirmed: confirmed})
		fmt.Println("EMBED " + string(js))
		return
	}
	if def.Setup != nil {
		def.Setup(c)
	}
	c.Finish()
}

// workerCrashes collects the stderr of workers that the code under test brought down.
var workerCrashes []string

// runWorkers shards the scenarios of a check over worker processes and merges their statistics.
func runWorkers(id, tier string, n int, promoted []string) (*explore.Stats, int) {
	total := explore.NewStats()
	var mu sync.Mutex
	var wg sync.WaitGroup
	minDone := 1 << 30
	for i := 0; i < n; i++ {
		wg.Add(1)
		go func(i int) {
			defer wg.Done()
			cmd := exec.Command(os.Args[0], "worker", id, tier, strconv.Itoa(i), strconv.Itoa(n))
			cmd.Env = append(os.Environ(), "GOMAXPROCS=2", "VERIF_PROMOTE="+strings.Join(promoted, ","))
			var errText strings.Builder
			cmd.Stderr = io.MultiWriter(os.Stderr, &errText)
			out, err := cmd.Output()
			var st *explore.Stats
			for _, line := range strings.Split(string(out), "\n") {
				if strings.HasPrefix(line, "STATS ") {
					st = explore.NewStats()
					if e := json.Unmarshal([]byte(strings.TrimPrefix(line, "STATS ")), st); e != nil {
						st = nil
					}
				}
			}
			if err != nil || st == nil {
				// a fatal runtime error of the code under test (concurrent map writes, all goroutines asleep,
				// a panic outside the scheduler's threads) kills the worker: a finding, not a harness error
				if t := errText.String(); !strings.Contains(t, "HARNESS-ERROR") && strings.Contains(t, "github.com/herohde/morlock/") && (strings.Contains(t, "fatal error: ") || strings.Contains(t, "panic: ")) {
					mu.Lock()
					workerCrashes = append(workerCrashes, t)
					mu.Unlock()
					return
				}
				fmt.Fprintf(os.Stderr, "HARNESS-ERROR: worker %d of %s failed: %v\n%s\n", i, id, err, lastLines(string(out), 20))
				os.Exit(2)
			}
			mu.Lock()
			total.Merge(st)
			if st.BoundDone < minDone {
				minDone = st.BoundDone
			}
			mu.Unlock()
		}(i)
	}
	wg.Wait()
	return total, minDone
}

// Embedded is what an embedded run (VERIF_EMBED=1) hands back to the check that started it.
type Embedded struct {
	Stats     *explore.Stats  `json:"stats"`
	Scenarios int             `json:"scenarios"`
	BoundDone int             `json:"bound_done"`
	Confirmed []explore.Found `json:"confirmed"`
}

// boundSequence iterates the deviation bound 0,1,2,... and jumps to the requested bound once
// it is large (an "unbounded" request).
func boundSequence(bound int) []int {
	var out []int
	for b := 0; b <= bound && b <= 5; b++ {
		out = append(out, b)
	}
	if bound > 5 {
		out = append(out, bound)
	}
	return out
}

func lastLines(s string, n int) string {
	ls := strings.Split(strings.TrimSpace(s), "\n")
	if len(ls) > n {
		ls = ls[len(ls)-n:]
	}
	return strings.Join(ls, "\n")
}

// SetupOnly runs just the sequential part of a check and prints what it found (debugging aid).
func SetupOnly(id string) {
	def, ok := Defs[id]
	if !ok || def.Setup == nil {
		fmt.Fprintln(os.Stderr, "HARNESS-ERROR: no sequential part for", id)
		os.Exit(2)
	}
	os.Setenv("VERIF_OUT", os.TempDir())
	tier := "quick"
	if t := os.Getenv("VERIF_SETUP_TIER"); t != "" {
		tier = t
	}
	c := harness.New(id, tier, "mc")
	def.Setup(c)
	fmt.Println("violations:", c.NumViolations())
}

// Replay re-runs one recorded schedule without the explorer.
func Replay(path string) {
	r, err := harness.LoadReplay(path)
	if err != nil {
		fmt.Fprintln(os.Stderr, "HARNESS-ERROR:", err)
		os.Exit(2)
	}
	if r.Kind == "panic" {
		// a worker was brought down by the code under test: replaying is running that check again
		var d struct{ Check, Tier string }
		_ = json.Unmarshal(r.Data, &d)
		os.Setenv("VERIF_OUT", os.TempDir())
		Main(d.Check, d.Tier)
		return
	}
	if r.Kind == "setup" || r.Kind == "note" {
		// a finding of the sequential part of a check (grids, conformance sessions): replaying is
		// running that part again; the signature recorded must come up again
		def, ok := Defs[r.Property]
		if !ok || def.Setup == nil {
			fmt.Fprintln(os.Stderr, "HARNESS-ERROR: no sequential part for", r.Property)
			os.Exit(2)
		}
		os.Setenv("VERIF_OUT", os.TempDir())
		c := harness.New(r.Property, "quick", "mc")
		def.Setup(c)
		if msg, ok := c.Has(r.Sig); ok {
			fmt.Printf("VIOLATION property=%s replay=%s\n    sig: %s\n    %s\n", r.Property, path, r.Sig, msg)
			os.Exit(1)
		}
		fmt.Println("replay: property holds on this input (the sequential part of the check no longer reports", r.Sig+")")
		return
	}
	var f explore.Found
	if err := json.Unmarshal(r.Data, &f); err != nil {
		fmt.Fprintln(os.Stderr, "HARNESS-ERROR: bad replay file:", err)
		os.Exit(2)
	}
	sc := Build(f.Spec)
	explore.SetPromoted(f.Promoted)
	s1, o1 := explore.RunOnce(sc, f.Choices)
	_, o2 := explore.RunOnce(sc, f.Choices)
	if o1.Violation != o2.Violation {
		fmt.Fprintln(os.Stderr, "HARNESS-ERROR: replay is not deterministic")
		os.Exit(2)
	}
	for _, e := range s1.Events {
		fmt.Println("   ", e)
	}
	if o1.Violation != "" {
		fmt.Printf("VIOLATION property=%s replay=%s\n    sig: %s\n    %s\n", r.Property, path, o1.Violation, o1.Msg)
		os.Exit(1)
	}
	fmt.Println("replay: property holds on this schedule; outcome:", o1.Class)
}

// Race runs the harness bodies of a check free (no scheduler; the shim passes through to the real
// primitives) so that a binary built with -race can observe unsynchronised accesses. It samples
// schedules and decides nothing: supplementary evidence only.
func Race(id string, reps int) {
	def, ok := Defs[id]
	if !ok {
		fmt.Fprintln(os.Stderr, "HARNESS-ERROR: unknown check", id)
		os.Exit(2)
	}
	runs, skipped := 0, 0
	noMeasure = true
	scs := def.Gen("quick")
	stride := len(scs)/40 + 1
	for i, sc := range scs {
		if i%stride != 0 {
			continue
		}
		if strings.Contains(string(sc.Spec.Params), "infinite") || strings.Contains(string(sc.Spec.Params), `"limit":0`) {
			skipped++ // does not end by itself when running free
			continue
		}
		for r := 0; r < reps; r++ {
			main, _, _ := sc.Build()
			vs.FreeStart = time.Now()
			done := make(chan struct{})
			go func() {
				func() {
					defer func() { _ = recover() }()
					main()
				}()
				vs.FreeWG.Wait()
				close(done)
			}()
			select {
			case <-done:
			case <-time.After(1500 * time.Millisecond):
			}
			runs++
		}
	}
	fmt.Printf("race pass %s: %d free runs, %d scenarios skipped (never end when running free)\n", id, runs, skipped)
}

// Debug explores the scenarios of a check whose spec contains every given substring and prints
// what was seen (development aid).
func Debug(id, tier string, bound int, subs []string) {
	explore.SetPromoted(strings.Split(os.Getenv("VERIF_PROMOTE"), ","))
	for _, sc := range Defs[id].Gen(tier) {
		spec := sc.Spec.String()
		ok := true
		for _, sub := range subs {
			if !strings.Contains(spec, sub) {
				ok = false
			}
		}
		if !ok {
			continue
		}
		stats := explore.NewStats()
		e := &explore.Explorer{Bound: bound, Stats: stats}
		e.Explore(sc)
		fmt.Printf("%s\n  executions=%d pruned=%d races=%v\n", spec, stats.Executions, stats.Pruned, stats.Races)
		for k, v := range stats.Outcomes {
			fmt.Printf("  %6d x %s\n", v, k)
		}
		if os.Getenv("VERIF_TRACE") != "" {
			// every single-deviation schedule: where the deviation was and what came of it
			s0, _ := explore.RunOnce(sc, nil)
			for i, pt := range s0.Trace {
				for alt := 1; alt < pt.N; alt++ {
					pre := make([]int, i+1)
					pre[i] = alt
					s1, o := explore.RunOnce(sc, pre)
					for _, ev := range s1.Events {
						if strings.Contains(ev, "[deviation") {
							fmt.Printf("  %s -> %s %s\n", strings.TrimSpace(ev), o.Violation, o.Class)
						}
					}
				}
			}
		}
		for _, f := range stats.Found {
			fmt.Printf("  VIOLATION %s\n    %s\n", f.Violation, f.Msg)
		}
	}
}
