package mc

import (
	"encoding/json"

	"verif/explore"
)

// C12, concurrent half: a RUNNING iterative-deepening search (real goroutines) is halted by
// one or two callers of Halt - a halter thread and, with a time control, the hard-limit timer -
// at any instant. When a caller's Halt returns, the board must be back in the state it was
// handed in and the halted search must never touch the table again ("leaves nothing behind").
func init() {
	Defs["C12"] = &Def{
		ID:   "C12",
		Rule: "real searchctl.Iterative.Launch with a table on K v K and fortress roots, depth limit none/3, time control off/on; a halter thread calls Halt as a lazy thread (ANY scheduling point, one deviation) or at every step of a grid; with a time control the hard-limit timer is a second caller of Halt (lazy: any instant; or released at half the halter's step); a consumer that halts on seeing depth 1/2 next to the timer. Oracle: at the moment a caller's Halt returns the board has its initial ply and hash, and from then on the table (wrapped) is neither read nor written; plus the C15 clauses on the same executions",
		Gen: func(tier string) []explore.Scenario {
			var out []explore.Scenario
			for _, f := range []string{kP1, kFortress} {
				for _, limit := range []int{0, 3} {
					for _, tc := range []bool{false, true} {
						base := iterParams{FEN: f, Limit: limit, Table: true, Time: tc, HaltAt: -1, Timer: 1 << 30, Horizon: 500, Clean: true}
						if limit == 0 {
							base.Horizon = 350
						}
						// halter (and timer) at any instant
						q := base
						q.HaltAt = -2
						if tc {
							q.Timer = -1
						}
						out = append(out, iterScenario(q))
						// the consumer halts on seeing depth D, timer at any instant
						for _, d := range []int{1, 2} {
							r := base
							r.HaltOn = d
							if tc {
								r.Timer = -1
							}
							out = append(out, iterScenario(r))
						}
						// halter on a grid (free instants, the deviations buy preemptions)
						s, _ := explore.RunOnce(iterScenario(base), nil)
						stride := 6
						if tier == "thorough" {
							stride = 2
						}
						max := s.Steps
						if max > 200 {
							max = 200
						}
						for k := 0; k <= max; k += stride {
							g := base
							g.HaltAt = k
							if tc {
								g.Timer = k / 2
							}
							out = append(out, iterScenario(g))
							if tc {
								g.Timer = -1
								out = append(out, iterScenario(g))
							}
						}
					}
				}
			}
			return out
		},
		Bound: func(tier string, sc explore.Scenario) int {
			var p iterParams
			_ = json.Unmarshal(sc.Spec.Params, &p)
			if p.HaltAt == -2 && p.Timer == -1 && (p.Limit == 3 || tier == "thorough") {
				return 2 // timer at any instant AND halter at any instant
			}
			if tier == "thorough" {
				return 2
			}
			return 1
		},
	}
}
