package mc

import (
	"encoding/json"
	"strings"

	"verif/explore"
)

const (
	kP1 = "7k/8/8/8/8/8/8/K7 w - - 0 1" // 3 legal moves, White to move
	kP2 = "7k/8/8/8/8/8/8/K7 b - - 0 1" // 3 legal moves, Black to move: answers identify their search
)

// measure runs the scenario once with the released command held back and returns the number of
// scheduler steps of that run: the range of injection instants.
func measure(p uciParams) int {
	if noMeasure {
		return 120
	}
	p.Release = 1 << 30
	sc := buildUCI(mustJSON(p))
	s, _ := explore.RunOnce(sc, nil)
	return s.Steps
}

// noMeasure is set by the free-running race pass: no scheduler is ever started there.
var noMeasure bool

func uciScenario(p uciParams) explore.Scenario {
	sc := buildUCI(mustJSON(p))
	sc.Spec = mkSpec("uci", p)
	return sc
}

func c16Scripts(tier string) []uciParams {
	interrupts := []string{"isready", "stop", "position fen " + kP2, "go depth 1", "ucinewgame", "quit", "foo bar", "go depth", "position fen 8/8 w", ""}
	gos := []string{"go depth 2", "go infinite"}
	if tier == "thorough" {
		gos = append(gos, "go movetime 5", "go wtime 1000 btime 1000")
	}
	var out []uciParams
	for gi, g := range gos {
		for i, a := range interrupts {
			var words [][]string
			words = append(words, []string{a})
			for j, b := range interrupts {
				if tier == "thorough" || (i+2*j+gi)%7 == 0 || (a == "position fen "+kP2 && b == "go depth 1") {
					words = append(words, []string{a, b})
				}
			}
			for wi, w := range words {
				script := []string{"position fen " + kP1, g, "!" + w[0]}
				script = append(script, w[1:]...)
				script = append(script, "isready", "await-ready")
				final := "quit"
				if (wi+i)%2 == 1 {
					final = "eof"
				}
				horizon := 700
				if g == "go infinite" {
					horizon = 450
				}
				out = append(out, uciParams{Engine: "plain", Script: script, Final: final, Oracle: "c16", Horizon: horizon})
			}
		}
	}
	// a GUI that stops reading the output for a while, with the driver's buffers scaled down to two
	// slots: whatever is sent meanwhile must still be handled once it reads again (back-pressure
	// must not turn into a deadlock)
	for _, w := range [][]string{{"stop"}, {"position fen " + kP2, "go depth 1"}, {"ucinewgame"}, {"isready"}, {"quit"}} {
		for _, stall := range []int{30, 60, 100, 150} {
			// K v K with the half-move clock at 99: every reply is a draw, an iteration costs a dozen steps, so
			// the search floods the driver with info lines
			script := []string{"position fen 7k/8/8/8/8/8/8/K7 w - - 99 80", "go infinite", "!" + w[0]}
			script = append(script, w[1:]...)
			script = append(script, "isready", "await-ready")
			out = append(out, uciParams{Engine: "plain", Script: script, Final: "quit", Oracle: "c16", Horizon: 1200, Cap: 2, Stall: stall, StallFor: 150, Release: stall + 40})
		}
	}
	// a go WITHOUT any position command (the engine starts on the initial position): the driver's
	// own notion of "a game is in progress" must not decide whether a search is running
	for _, g := range []string{"go depth 1", "go infinite"} {
		for _, w := range [][]string{{"ucinewgame"}, {"ucinewgame", "position fen " + kP2}, {"stop"}, {"isready"}, {"position fen " + kP2, "go depth 1"}, {"ucinewgame", "go depth 1"}} {
			script := []string{g, "!" + w[0]}
			script = append(script, w[1:]...)
			script = append(script, "isready", "await-ready")
			out = append(out, uciParams{Engine: "plain", Script: script, Final: "quit", Oracle: "c16", Horizon: 900})
		}
	}
	// roots WITHOUT a legal move (checkmated, stalemated): the search ends at once with an empty
	// variation and the answer is the null move - a path of its own through the driver's bookkeeping
	for _, root := range []string{kMated, kStale} {
		for _, g := range []string{"go depth 1", "go infinite"} {
			for _, w := range [][]string{{"stop"}, {"stop", "stop"}, {"isready"}, {"position fen " + kP2}, {"position fen " + kP2, "go depth 1"}, {"ucinewgame"}, {"quit"}, {"go depth 1"}} {
				script := []string{"position fen " + root, g, "!" + w[0]}
				script = append(script, w[1:]...)
				script = append(script, "isready", "await-ready")
				out = append(out, uciParams{Engine: "plain", Script: script, Final: "quit", Oracle: "c16", Horizon: 700})
			}
		}
	}
	return out
}

func init() {
	Defs["C16"] = &Def{
		ID:   "C16",
		Rule: "real uci.Driver + engine + iterative-deepening search on a K v K root (3 legal moves) driven by a GUI thread; scripts `position P1; go X; <w>; isready; quit|EOF` (and `go X; <w>; isready; quit` with no position command at all: the engine starts on the initial position; and the same from a checkmated and a stalemated root, where the search ends at once with an empty variation and the answer is the null move; and `position P1; go infinite; <w>; isready; quit` with the driver's buffered channels scaled down to two slots and a GUI that stops reading the output for 150 steps or until nothing else can run) for interrupting words w of length <= 2 over {isready, stop, position P2 (other side to move, so a bestmove identifies its search), go, ucinewgame, quit, unknown, malformed go, malformed position, empty line}; the first interrupting command is released (a) as a lazy thread: at ANY scheduling point of the run for one deviation, timers likewise, and (b) at scheduler step k for a grid of k over the whole uninterrupted run (injection instant enumerated, leaving the deviations for preemptions), timers likewise, and for superseding commands each engine goroutine (search, quit-cancel, forwarder, ...) in turn held back for 50/200 steps after the release (slow-thread dimension); every schedule within the deviation bound (delay bounding: every departure from the deterministic scheduler costs 1). Oracle on the event log of each complete execution: no panic in any thread; loop never parked inside a handler, GUI never blocked on a live driver; every received isready answered; no bestmove before a go, two for one go, or illegal for the position the go was given for (= answer of a superseded search); after quit/EOF output channel and driver closed. Horizon-cut executions are inconclusive, never violations. distinct_nontrivial = distinct event-log classes among executions where two threads touched a common object",
		Gen: func(tier string) []explore.Scenario {
			var out []explore.Scenario
			for _, p := range c16Scripts(tier) {
				l := measure(p)
				stride := 12
				if tier == "thorough" {
					stride = 3
				}
				max := l
				if max > 240 {
					max = 240
				}
				script := strings.Join(p.Script, ";")
				superseding := strings.Contains(script, "!position") || strings.Contains(script, "!go ") || strings.Contains(script, "!ucinewgame") || strings.Contains(script, "!quit") || strings.Contains(script, "!stop")
				// the interrupting command (and every timer) as a lazy thread: it arrives at ANY scheduling
				// point the explorer chooses, for one deviation
				lz := p
				lz.Release, lz.Timer = -1, -1
				out = append(out, uciScenario(lz))
				for k := 0; k <= max; k += stride {
					q := p
					q.Release = k
					q.Timer = k / 2
					out = append(out, uciScenario(q))
					// one of the engine's goroutines (search, quit-cancel, forwarder, ...) is slow for a while
					// after the interrupting command arrives
					if superseding && (tier == "thorough" || k%(4*stride) == 0) {
						for slow := 2; slow <= 5; slow++ {
							for _, until := range []int{50, 200} {
								if tier != "thorough" && until == 200 && slow%2 == 1 {
									continue
								}
								q.Slow, q.Until = slow, until
								out = append(out, uciScenario(q))
							}
						}
					}
				}
			}
			return out
		},
		Bound: func(tier string, sc explore.Scenario) int {
			var p uciParams
			_ = json.Unmarshal(sc.Spec.Params, &p)
			if tier == "thorough" {
				return 2
			}
			return 1
		},
	}
}
