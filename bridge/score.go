package bridge

import (
	"github.com/herohde/morlock/pkg/eval"
	"verif/ref"
)

// RefScore converts an implementation score to the reference rank tuple. ok=false for Invalid.
func RefScore(s eval.Score) (ref.Score, bool) {
	switch s.Type {
	case eval.Heuristic:
		return ref.Heur(float32(s.Pawns)), true
	case eval.MateInX:
		if s.Mate == 0 {
			return ref.Score{}, false
		}
		return ref.Mate(int(s.Mate)), true
	case eval.Inf:
		return ref.Won, true
	case eval.NegInf:
		return ref.Lost, true
	}
	return ref.Score{}, false
}

// ImplScore converts a reference score (|k| <= 127) to the implementation's representation.
func ImplScore(s ref.Score) eval.Score {
	switch s.Class {
	case 0:
		return eval.NegInfScore
	case 4:
		return eval.InfScore
	case 1:
		return eval.MateInXScore(int8(-s.K))
	case 3:
		return eval.MateInXScore(int8(s.K))
	}
	return eval.HeuristicScore(eval.Pawns(s.H))
}
