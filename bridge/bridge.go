// Package bridge converts between morlock's types and the reference model's.
package bridge

import (
	"fmt"
	"strings"

	"github.com/herohde/morlock/pkg/board"
	"github.com/herohde/morlock/pkg/board/fen"
	"verif/ref"
)

// Sq converts a reference square (a1=0 .. h8=63) to a morlock square (h1=0 .. a8=63).
func Sq(s int8) board.Square { return board.Square((s/8)*8 + (7 - s%8)) }

// RefSq converts a morlock square to a reference square.
func RefSq(s board.Square) int8 { return int8(s/8)*8 + (7 - int8(s%8)) }

var pieceM = [7]board.Piece{board.NoPiece, board.Pawn, board.Knight, board.Bishop, board.Rook, board.Queen, board.King}
var kindM = map[ref.Kind]board.MoveType{ref.Normal: board.Normal, ref.Push: board.Push, ref.Jump: board.Jump, ref.EnPassant: board.EnPassant,
	ref.CastleQ: board.QueenSideCastle, ref.CastleK: board.KingSideCastle, ref.Capture: board.Capture, ref.Promotion: board.Promotion, ref.CapturePromotion: board.CapturePromotion}

func Piece(k int8) board.Piece { return pieceM[k] }

func RefPiece(p board.Piece) int8 {
	for i, q := range pieceM {
		if q == p {
			return int8(i)
		}
	}
	return 0
}

// Move converts a classified reference move into the morlock move value the generator should emit.
func Move(m ref.Move) board.Move {
	return board.Move{Type: kindM[m.Kind], From: Sq(m.From), To: Sq(m.To), Piece: pieceM[m.Piece], Promotion: pieceM[m.Promo], Capture: pieceM[m.Captured]}
}

// Text is the coordinate notation of a move ("e2e4", "e7e8q").
func Text(m board.Move) string {
	s := m.From.String() + m.To.String()
	switch m.Promotion {
	case board.Queen:
		s += "q"
	case board.Rook:
		s += "r"
	case board.Bishop:
		s += "b"
	case board.Knight:
		s += "n"
	case board.NoPiece:
	default:
		s += "?" + m.Promotion.String()
	}
	return s
}

// Key is a full-metadata key of a move.
func Key(m board.Move) string {
	return fmt.Sprintf("%s|%v|%v|%v", Text(m), m.Type, m.Piece, m.Capture)
}

// ToRef reads a morlock position through its square lookup.
func ToRef(pos *board.Position, turn board.Color) *ref.Pos {
	p := &ref.Pos{EP: -1, White: turn == board.White}
	for s := int8(0); s < 64; s++ {
		if c, pc, ok := pos.Square(Sq(s)); ok {
			v := RefPiece(pc)
			if c == board.Black {
				v = -v
			}
			p.Sq[s] = v
		}
	}
	cs := pos.Castling()
	if cs&board.WhiteKingSideCastle != 0 {
		p.Castle |= ref.WK
	}
	if cs&board.WhiteQueenSideCastle != 0 {
		p.Castle |= ref.WQ
	}
	if cs&board.BlackKingSideCastle != 0 {
		p.Castle |= ref.BK
	}
	if cs&board.BlackQueenSideCastle != 0 {
		p.Castle |= ref.BQ
	}
	if ep, ok := pos.EnPassant(); ok {
		p.EP = RefSq(ep)
	}
	return p
}

// FromRef builds a morlock position from a reference position with the public constructor.
func FromRef(p *ref.Pos) (*board.Position, board.Color) {
	var pl []board.Placement
	for s := int8(0); s < 64; s++ {
		v := p.Sq[s]
		if v == 0 {
			continue
		}
		c := board.White
		if v < 0 {
			c, v = board.Black, -v
		}
		pl = append(pl, board.Placement{Square: Sq(s), Color: c, Piece: pieceM[v]})
	}
	var cs board.Castling
	if p.Castle&ref.WK != 0 {
		cs |= board.WhiteKingSideCastle
	}
	if p.Castle&ref.WQ != 0 {
		cs |= board.WhiteQueenSideCastle
	}
	if p.Castle&ref.BK != 0 {
		cs |= board.BlackKingSideCastle
	}
	if p.Castle&ref.BQ != 0 {
		cs |= board.BlackQueenSideCastle
	}
	ep := board.ZeroSquare
	if p.EP >= 0 {
		ep = Sq(p.EP)
	}
	pos, err := board.NewPosition(pl, cs, ep)
	if err != nil {
		panic(err)
	}
	turn := board.White
	if !p.White {
		turn = board.Black
	}
	return pos, turn
}

// NewBoard sets up a game board from a FEN with the given Zobrist seed.
func NewBoard(f string, seed int64) *board.Board {
	pos, turn, np, fm, err := fen.Decode(f)
	if err != nil || pos == nil {
		panic(fmt.Sprintf("bridge.NewBoard(%q): %v", f, err))
	}
	return board.NewBoard(Table(seed), pos, turn, np, fm)
}

// DegenerateSeed selects the zero value of board.ZobristTable: every key is 0, so EVERY position
// hashes to 0. What a game board reports about positions (repetitions, draws) and what a search
// without a hash table returns must not depend on hash values at all - a hash is at most a
// pre-filter there - so all of it must come out the same under this table, where the
// "2^-64 coincidence" happens at every step. (Only C07, whose subject is the hash itself, and the
// transposition table, which is keyed by it by design, are entitled to a working table.)
const DegenerateSeed = int64(-1 << 63)

// Table returns the Zobrist table for a seed (see DegenerateSeed).
func Table(seed int64) *board.ZobristTable {
	if seed == DegenerateSeed {
		return &board.ZobristTable{}
	}
	return board.NewZobristTable(seed)
}

// FindImpl returns the implementation's pseudo-legal move with the given text.
func FindImpl(pos *board.Position, turn board.Color, text string) (board.Move, bool) {
	for _, m := range pos.PseudoLegalMoves(turn) {
		if Text(m) == text {
			return m, true
		}
	}
	return board.Move{}, false
}

// Snapshot renders everything a game board reports through its getters (C03/C08/C12/C18).
// Unknown and Undecided are the same "no result" answer; withHash=false drops the hash so that
// snapshots can be compared across Zobrist seeds.
func Snapshot(b *board.Board, withHash bool) string {
	lm, ok1 := b.LastMove()
	sm, ok2 := b.SecondToLastMove()
	res := b.Result()
	r := fmt.Sprintf("%v/%v", res.Outcome, res.Reason)
	if res.Outcome == board.Unknown || res.Outcome == board.Undecided {
		r = "open"
	}
	h := ""
	if withHash {
		h = fmt.Sprintf("%x", uint64(b.Hash()))
	}
	return fmt.Sprintf("%s|h=%s|np=%d ply=%d fm=%d|castled=%v,%v|last=%v,%v|prev=%v,%v|moved=%x|%s",
		fen.Encode(b.Position(), b.Turn(), 0, 0), h, b.NoProgress(), b.Ply(), b.FullMoves(),
		b.HasCastled(board.White), b.HasCastled(board.Black), Key(lm), ok1, Key(sm), ok2, uint64(b.HasMoved(1000)), r)
}

// MovesText joins a list of implementation moves.
func MovesText(ms []board.Move) string {
	var ss []string
	for _, m := range ms {
		ss = append(ss, Text(m))
	}
	return strings.Join(ss, " ")
}
