// Package corpus holds the fixed finite input sets the explicit-state checks start from:
// tagged seed positions and completely enumerated systematic families.
package corpus

import (
	"fmt"

	"verif/ref"
)

type Seed struct {
	FEN  string
	Tags string
}

const Initial = "rnbqkbnr/pppppppp/8/8/8/8/PPPPPPPP/RNBQKBNR w KQkq - 0 1"
const Kiwipete = "r3k2r/p1ppqpb1/bn2pnp1/3PN3/1p2P3/2N2Q1p/PPPBBPPP/R3K2R w KQkq - 0 1"

// Perft anchors: published node counts that do not come from morlock.
var Perft = []struct {
	FEN    string
	Counts []int64
}{
	{Initial, []int64{20, 400, 8902, 197281, 4865609}},
	{Kiwipete, []int64{48, 2039, 97862, 4085603}},
	{"8/2p5/3p4/KP5r/1R3p1k/8/4P1P1/8 w - - 0 1", []int64{14, 191, 2812, 43238, 674624}},
	{"r3k2r/Pppp1ppp/1b3nbN/nP6/BBP1P3/q4N2/Pp1P2PP/R2Q1RK1 w kq - 0 1", []int64{6, 264, 9467, 422333}},
	{"rnbq1k1r/pp1Pbppp/2p5/8/2B5/8/PPP1NnPP/RNBQK2R w KQ - 1 8", []int64{44, 1486, 62379, 2103487}},
	{"r4rk1/1pp1qppp/p1np1n2/2b1p1B1/2B1P1b1/P1NP1N2/1PP1QPPP/R4RK1 w - - 0 10", []int64{46, 2079, 89890, 3894594}},
}

// Seeds are the tagged start positions of the BFS closures.
var Seeds = []Seed{
	{Initial, "start big"},
	{Kiwipete, "kiwipete big castle ep promo"},
	{"8/2p5/3p4/KP5r/1R3p1k/8/4P1P1/8 w - - 0 1", "cpw3 ep pin"},
	{"r3k2r/Pppp1ppp/1b3nbN/nP6/BBP1P3/q4N2/Pp1P2PP/R2Q1RK1 w kq - 0 1", "cpw4 big promo castle"},
	{"r2q1rk1/pP1p2pp/Q4n2/bbp1p3/Np6/1B3NBn/pPPP1PPP/R3K2R b KQ - 0 1", "cpw4m big promo castle"},
	{"rnbq1k1r/pp1Pbppp/2p5/8/2B5/8/PPP1NnPP/RNBQK2R w KQ - 1 8", "cpw5 big promo"},
	{"r4rk1/1pp1qppp/p1np1n2/2b1p1B1/2B1P1b1/P1NP1N2/1PP1QPPP/R4RK1 w - - 0 10", "cpw6 big"},
	// castling edges
	{"r3k2r/8/8/8/8/8/8/R3K2R w KQkq - 0 1", "castle corners"},
	{"r3k2r/8/8/8/8/8/8/R3K2R b KQkq - 0 1", "castle corners"},
	{"r3k2r/8/8/8/8/8/6n1/R3K2R w KQkq - 0 1", "castle attacked-path"},
	{"r3k2r/8/8/8/8/8/1n6/R3K2R w KQkq - 0 1", "castle b1-attacked"},
	{"r3k2r/1N6/8/8/8/8/8/R3K2R b KQkq - 0 1", "castle attacked-path"},
	{"4k2r/8/8/8/8/8/8/R3K3 w Qk - 0 1", "castle one-side-each"},
	{"r3k2r/8/8/8/8/8/8/R3K2R w Kq - 0 1", "castle partial-rights"},
	{"r3k2r/8/8/8/8/8/8/1R2K2R b Kkq - 0 1", "castle rook-off-home"},
	{"rn2k2r/8/8/8/8/8/8/R3K1NR w KQkq - 0 1", "castle blocked"},
	{"r3k2r/8/8/8/7b/8/8/R3K2R w KQkq - 0 1", "castle king-in-check-line"},
	{"r3k2r/8/8/8/8/8/7p/R3K2R b KQkq - 0 1", "castle promo-capture-rook"},
	{"r3k2r/P6P/8/8/8/8/p6p/R3K2R w KQkq - 0 1", "castle promo-capture-rook both"},
	// en passant edges
	{"8/8/8/K2pP2r/8/8/8/7k w - d6 0 1", "ep rank-pin"},
	{"4k3/8/8/8/2pP4/8/8/4K2B b - d3 0 1", "ep diag-pin"},
	{"8/8/8/2k5/3Pp3/8/8/4K3 b - d3 0 1", "ep capture-checker"},
	{"8/8/3p4/1Pp4r/1K3p2/6k1/4P1P1/1R6 w - c6 0 3", "ep"},
	{"rnbqkbnr/ppp1pppp/8/8/3pP3/8/PPPP1PPP/RNBQKBNR b KQkq e3 0 3", "ep start-like big"},
	{"4k3/8/8/8/4P3/8/8/4K3 b - e3 0 1", "ep no-capturer"},
	{"k7/8/8/3pP3/8/8/8/3RK3 w - d6 0 1", "ep file-discover"},
	{"4k3/8/8/r2pPK2/8/8/8/8 w - d6 0 1", "ep rank-pin-king-far-side"},
	{"8/8/4k3/3pP3/8/8/2q5/K7 w - d6 0 2", "ep only-legal-move"},                                           // the en passant capture is the ONLY legal move (king stalemated, pawn blocked)
	{"7k/8/p2p4/Pp6/2K5/r7/3q4/8 w - b6 0 2", "ep only-legal-move check"},                                  // ... the only answer to a check by the pawn that has just jumped
	{"k7/2Q5/8/8/3Pp3/4K3/8/8 b - d3 0 2", "ep only-legal-move"},                                           // ... for Black (all three from the demonstration of seeded change C20n)
	{"7k/4N2p/4b3/3pP3/8/8/8/BK6 w - d6 0 1", "ep mate-only-by-ep low"},                                    // the en passant capture is the only mate in one (discovered)
	{"r1bq1r2/pp2n3/4N2k/3pPppP/1b1n2Q1/2N5/PP3PP1/R1B1K2R w KQ g6 0 15", "ep mate-only-by-ep big castle"}, // Gundersen - Faul 1928: 15.hxg6 e.p. mate
	// a rook captured on its home corner BY A PROMOTING PAWN while the right is held, with a second rook
	// that can take its place: a right that outlives its rook shows as an illegal castling three plies on
	{"4k2r/6P1/8/7r/8/8/8/4K3 w k - 0 1", "promo castle-replacement"},
	{"8/4k3/8/8/R7/8/1p6/R3K3 b Q - 0 1", "promo castle-replacement"},
	// promotion edges
	{"n1n5/PPPk4/8/8/8/8/4Kppp/5N1N b - - 0 1", "promo big"},
	{"n1n5/PPPk4/8/8/8/8/4Kppp/5N1N w - - 0 1", "promo big"},
	{"4k3/P7/8/8/8/8/7p/4K3 w - - 0 1", "promo quiet"},
	{"1n2k3/P7/8/8/8/8/7p/4K1N1 w - - 0 1", "promo capture"},
	{"r3k3/1P6/8/8/8/8/8/4K3 w q - 0 1", "promo capture-rook-right"},
	{"6k1/4P3/8/8/8/8/8/4K3 w - - 0 1", "promo gives-check"},
	// check evasion
	{"4k3/8/8/8/8/5n2/4r3/4K3 w - - 0 1", "evasion double-check"},
	{"4k3/8/8/8/1b6/8/3N4/4K2r w - - 0 1", "evasion pinned-blocker"},
	{"4k3/4r3/8/8/8/8/4R3/4K3 w - - 0 1", "pin file"},
	{"k7/8/8/8/8/2q5/3B4/4K3 w - - 0 1", "pin diag"},
	// odd material
	{"QQQQQQQQ/Q7/8/8/8/8/7k/K7 b - - 0 1", "odd nine-queens"},
	{"nnnnnnnn/nn6/8/8/8/8/8/K6k b - - 0 1", "odd ten-knights"},
	{"4k3/8/8/8/8/8/8/RNBQKBNR w KQ - 0 1", "odd no-pawns"},
	// low-branching fortresses and nets
	{"k7/p7/P7/8/8/7p/7P/7K w - - 0 1", "fortress low"},
	{"kb6/p7/P7/8/8/7p/7P/6BK w - - 0 1", "fortress low bishops"},
	{"7k/8/5K2/6Q1/8/8/8/8 b - - 0 1", "net"},
	{"k7/8/1K6/8/8/8/8/7R w - - 0 1", "net mate1"},
	{"7k/5Q2/6K1/8/8/8/8/8 b - - 0 1", "stalemate"},
	{"R6k/8/6K1/8/8/8/8/8 b - - 0 1", "checkmated"},
}

// Tagged returns the seeds carrying the tag.
func Tagged(tag string) []Seed {
	var out []Seed
	for _, s := range Seeds {
		for _, t := range splitTags(s.Tags) {
			if t == tag {
				out = append(out, s)
				break
			}
		}
	}
	return out
}

// NotTagged returns the seeds not carrying the tag.
func NotTagged(tag string) []Seed {
	var out []Seed
outer:
	for _, s := range Seeds {
		for _, t := range splitTags(s.Tags) {
			if t == tag {
				continue outer
			}
		}
		out = append(out, s)
	}
	return out
}

func splitTags(s string) []string {
	var out []string
	cur := ""
	for _, r := range s {
		if r == ' ' {
			if cur != "" {
				out = append(out, cur)
			}
			cur = ""
		} else {
			cur += string(r)
		}
	}
	if cur != "" {
		out = append(out, cur)
	}
	return out
}

func sqi(f, r int) int { return r*8 + f }

// Valid reports whether a synthetic position is well formed enough to be a legal chess position
// for move generation purposes: one king each, no pawns on the back ranks, side not to move not
// in check, castling rights only with king and rook at home, e.p. target consistent.
func Valid(p *ref.Pos) bool {
	wk, bk := 0, 0
	for s, v := range p.Sq {
		switch v {
		case ref.K:
			wk++
		case -ref.K:
			bk++
		case ref.P, -ref.P:
			if s/8 == 0 || s/8 == 7 {
				return false
			}
		}
	}
	if wk != 1 || bk != 1 {
		return false
	}
	if p.InCheck(!p.White) {
		return false
	}
	if p.Castle&ref.WK != 0 && !(p.Sq[4] == ref.K && p.Sq[7] == ref.R) {
		return false
	}
	if p.Castle&ref.WQ != 0 && !(p.Sq[4] == ref.K && p.Sq[0] == ref.R) {
		return false
	}
	if p.Castle&ref.BK != 0 && !(p.Sq[60] == -ref.K && p.Sq[63] == -ref.R) {
		return false
	}
	if p.Castle&ref.BQ != 0 && !(p.Sq[60] == -ref.K && p.Sq[56] == -ref.R) {
		return false
	}
	if p.EP >= 0 {
		r := int(p.EP) / 8
		if p.White {
			// Black just jumped: target on rank 6, black pawn on rank 5, origin square empty
			if r != 5 || p.Sq[p.EP-8] != -ref.P || p.Sq[p.EP] != 0 || p.Sq[p.EP+8] != 0 {
				return false
			}
		} else {
			if r != 2 || p.Sq[p.EP+8] != ref.P || p.Sq[p.EP] != 0 || p.Sq[p.EP-8] != 0 {
				return false
			}
		}
	}
	return true
}

// KXvK enumerates every placement of white K + X against black K (and the colour-swapped
// twin), both sides to move, keeping the valid ones. X in {Q,R,B,N,P}.
func KXvK(emit func(p *ref.Pos)) {
	for _, x := range []int8{ref.Q, ref.R, ref.B, ref.N, ref.P} {
		for wk := 0; wk < 64; wk++ {
			for bk := 0; bk < 64; bk++ {
				if bk == wk {
					continue
				}
				for xs := 0; xs < 64; xs++ {
					if xs == wk || xs == bk {
						continue
					}
					for _, sign := range []int8{1, -1} {
						for _, white := range []bool{true, false} {
							p := &ref.Pos{EP: -1, White: white}
							p.Sq[wk] = ref.K
							p.Sq[bk] = -ref.K
							p.Sq[xs] = sign * x
							if Valid(p) {
								emit(p)
							}
						}
					}
				}
			}
		}
	}
}

// CastlingUnderAttack enumerates king and both rooks at home with all rights for one colour and one
// enemy piece of every kind on every square (plus the enemy king somewhere harmless), both
// colours, the castling side to move.
func CastlingUnderAttack(emit func(p *ref.Pos)) {
	for _, white := range []bool{true, false} {
		for _, x := range []int8{ref.Q, ref.R, ref.B, ref.N, ref.P, ref.K} {
			for xs := 0; xs < 64; xs++ {
				p := &ref.Pos{EP: -1, White: white}
				sign := int8(1)
				base := 0
				if !white {
					sign, base = -1, 56
				}
				p.Sq[base+4], p.Sq[base], p.Sq[base+7] = sign*ref.K, sign*ref.R, sign*ref.R
				if white {
					p.Castle = ref.WK | ref.WQ
				} else {
					p.Castle = ref.BK | ref.BQ
				}
				if p.Sq[xs] != 0 {
					continue
				}
				p.Sq[xs] = -sign * x
				if x != ref.K {
					// enemy king far away: opposite back rank corner region, first free harmless square
					placed := false
					for _, ks := range []int{60 - base + 3, 60 - base - 3, 28, 35} {
						if ks >= 0 && ks < 64 && p.Sq[ks] == 0 {
							p.Sq[ks] = -sign * ref.K
							if Valid(p) {
								placed = true
								break
							}
							p.Sq[ks] = 0
						}
					}
					if !placed {
						continue
					}
				}
				if Valid(p) {
					emit(p)
				}
			}
		}
	}
}

// EnPassantFamily enumerates every adjacent pawn pair with an e.p. target, the capturing side's
// king on every square and one enemy slider (Q/R/B) on every square.
func EnPassantFamily(full bool, emit func(p *ref.Pos)) {
	for _, white := range []bool{true, false} { // side to move (the capturer)
		for f := 0; f < 8; f++ { // file of the pawn that just jumped
			for _, df := range []int{-1, 1} {
				cf := f + df
				if cf < 0 || cf > 7 {
					continue
				}
				rank, eprank, sign := 4, 5, int8(1)
				if !white {
					rank, eprank, sign = 3, 2, -1
				}
				for ks := 0; ks < 64; ks++ {
					if !full && ks%3 != 0 && ks/8 != rank {
						continue
					}
					for _, x := range []int8{ref.Q, ref.R, ref.B} {
						for xs := 0; xs < 64; xs++ {
							p := &ref.Pos{EP: int8(sqi(f, eprank)), White: white}
							p.Sq[sqi(f, rank)] = -sign * ref.P
							p.Sq[sqi(cf, rank)] = sign * ref.P
							if p.Sq[ks] != 0 || p.Sq[xs] != 0 || ks == xs {
								continue
							}
							p.Sq[ks] = sign * ref.K
							p.Sq[xs] = -sign * x
							// enemy king: a fixed far corner that is free
							for _, eks := range []int{0, 7, 56, 63} {
								if p.Sq[eks] == 0 {
									p.Sq[eks] = -sign * ref.K
									if Valid(p) {
										q := *p // (emit may keep the pointer: the king is taken off p again below)
										emit(&q)
									}
									p.Sq[eks] = 0
									break
								}
							}
						}
					}
				}
			}
		}
	}
}

// CornerFamily enumerates positions with all four rooks and kings at home, full rights, plus one
// extra piece (either colour, Q/R/B/N) on every square: every move from or onto a corner,
// including corner-to-corner captures, with rights set.
func CornerFamily(emit func(p *ref.Pos)) {
	for _, white := range []bool{true, false} {
		for _, x := range []int8{ref.Q, ref.R, ref.B, ref.N} {
			for _, sign := range []int8{1, -1} {
				for xs := 0; xs < 64; xs++ {
					p := &ref.Pos{EP: -1, White: white, Castle: ref.WK | ref.WQ | ref.BK | ref.BQ}
					p.Sq[4], p.Sq[0], p.Sq[7] = ref.K, ref.R, ref.R
					p.Sq[60], p.Sq[56], p.Sq[63] = -ref.K, -ref.R, -ref.R
					if p.Sq[xs] != 0 {
						continue
					}
					p.Sq[xs] = sign * x
					if Valid(p) {
						emit(p)
					}
				}
			}
		}
	}
	// rooks facing each other on open files with partial rights
	for _, white := range []bool{true, false} {
		for rights := uint8(0); rights < 16; rights++ {
			p := &ref.Pos{EP: -1, White: white, Castle: rights}
			p.Sq[4], p.Sq[0], p.Sq[7] = ref.K, ref.R, ref.R
			p.Sq[60], p.Sq[56], p.Sq[63] = -ref.K, -ref.R, -ref.R
			if Valid(p) {
				emit(p)
			}
		}
	}
}

// PromotionFamily enumerates a pawn on its 7th rank on every file with every combination of
// empty / enemy knight / enemy rook on the three squares ahead, both colours, kings on a set of
// squares that make the promotion give check, be blocked, or be illegal.
func PromotionFamily(emit func(p *ref.Pos)) {
	content := []int8{0, ref.N, ref.R}
	for _, white := range []bool{true, false} {
		sign, from, to := int8(1), 6, 7
		if !white {
			sign, from, to = -1, 1, 0
		}
		for f := 0; f < 8; f++ {
			for a := 0; a < 27; a++ {
				c := [3]int8{content[a%3], content[(a/3)%3], content[(a/9)%3]}
				for _, oks := range []int{sqi(4, from-int(sign)*2), sqi(0, from), sqi(7, from), sqi(3, from-int(sign))} { // own king
					for _, eks := range []int{sqi(4, to), sqi(0, to), sqi(7, to), sqi(2, from-int(sign)*3)} { // enemy king
						p := &ref.Pos{EP: -1, White: white}
						p.Sq[sqi(f, from)] = sign * ref.P
						ok := true
						for i, df := range []int{-1, 0, 1} {
							if f+df < 0 || f+df > 7 {
								if c[i] != 0 {
									ok = false
								}
								continue
							}
							p.Sq[sqi(f+df, to)] = -sign * c[i]
						}
						if !ok || p.Sq[oks] != 0 || p.Sq[eks] != 0 || oks == eks {
							continue
						}
						p.Sq[oks] = sign * ref.K
						p.Sq[eks] = -sign * ref.K
						if Valid(p) {
							emit(p)
						}
					}
				}
			}
		}
	}
}

// PinFamily enumerates king + one own piece + one enemy slider on every collinear triple.
func PinFamily(emit func(p *ref.Pos)) {
	dirs := [][2]int{{1, 0}, {0, 1}, {1, 1}, {1, -1}, {-1, 0}, {0, -1}, {-1, -1}, {-1, 1}}
	for _, white := range []bool{true} {
		for ks := 0; ks < 64; ks++ {
			kf, kr := ks%8, ks/8
			for _, d := range dirs {
				for i := 1; i < 7; i++ {
					of, or := kf+d[0]*i, kr+d[1]*i
					if of < 0 || of > 7 || or < 0 || or > 7 {
						break
					}
					for j := i + 1; j < 8; j++ {
						sf, sr := kf+d[0]*j, kr+d[1]*j
						if sf < 0 || sf > 7 || sr < 0 || sr > 7 {
							break
						}
						for _, own := range []int8{ref.Q, ref.R, ref.B, ref.N, ref.P} {
							if own == ref.P && (or == 0 || or == 7) {
								continue
							}
							for _, sl := range []int8{ref.Q, ref.R, ref.B} {
								p := &ref.Pos{EP: -1, White: white}
								p.Sq[ks] = ref.K
								p.Sq[sqi(of, or)] = own
								p.Sq[sqi(sf, sr)] = -sl
								for _, eks := range []int{0, 7, 56, 63, 27} {
									if p.Sq[eks] == 0 {
										p.Sq[eks] = -ref.K
										if Valid(p) {
											emit(p)
											break
										}
										p.Sq[eks] = 0
									}
								}
							}
						}
					}
				}
			}
		}
	}
}

// Describe is used in evidence samples.
func Describe(p *ref.Pos) string { return fmt.Sprint(p.FEN(0, 1)) }

// BackRankFamily enumerates a castled king boxed in by its own pawns and checked along the back
// rank by an enemy rook on every free square of that rank, with one own piece (Q, R, B, N) on
// every square: positions in which the only legal replies are interpositions or captures, many
// of them with exactly one legal move. Both colours.
func BackRankFamily(emit func(p *ref.Pos)) {
	for _, white := range []bool{true, false} {
		sign, back, second, far := int8(1), 0, 1, 7
		if !white {
			sign, back, second, far = -1, 7, 6, 0
		}
		for rf := 0; rf < 6; rf++ { // checking rook on a..f of the back rank
			for _, x := range []int8{ref.Q, ref.R, ref.B, ref.N} {
				for xs := 0; xs < 64; xs++ {
					p := &ref.Pos{EP: -1, White: white}
					p.Sq[sqi(6, back)] = sign * ref.K
					p.Sq[sqi(5, second)], p.Sq[sqi(6, second)], p.Sq[sqi(7, second)] = sign*ref.P, sign*ref.P, sign*ref.P
					p.Sq[sqi(rf, back)] = -sign * ref.R
					p.Sq[sqi(7, far)] = -sign * ref.K
					if p.Sq[xs] != 0 {
						continue
					}
					p.Sq[xs] = sign * x
					if Valid(p) {
						emit(p)
					}
				}
			}
		}
	}
}

// KXvKHeavy enumerates K+Q v K and K+R v K with the lone king on the edge of the board (every
// checkmate of these endings has the king on the edge), the lone king's side to move. all=false
// keeps the lone king on the a-file and first rank only.
func KXvKHeavy(all bool, emit func(p *ref.Pos)) {
	for _, x := range []int8{ref.Q, ref.R} {
		for bk := 0; bk < 64; bk++ {
			f, r := bk%8, bk/8
			edge := f == 0 || r == 0
			if all {
				edge = edge || f == 7 || r == 7
			}
			if !edge {
				continue
			}
			for wk := 0; wk < 64; wk++ {
				for xs := 0; xs < 64; xs++ {
					if wk == bk || xs == bk || xs == wk {
						continue
					}
					p := &ref.Pos{EP: -1, White: false}
					p.Sq[wk], p.Sq[bk], p.Sq[xs] = ref.K, -ref.K, x
					if Valid(p) {
						emit(p)
					}
				}
			}
		}
	}
}

// TwoQueensFamily: two queens of one colour (a promotion has happened) with an enemy slider on
// every square and two own pieces (a knight and a pawn) on every pair of squares: a query that
// walks over several targets of one kind must treat each on its own. all=false keeps the pawn on
// the files and diagonals of the queens' neighbourhood (d- and h-file, 4th and 6th rank).
func TwoQueensFamily(all bool, emit func(p *ref.Pos)) {
	for _, white := range []bool{true, false} {
		sign := int8(1)
		if !white {
			sign = -1
		}
		for _, slider := range []int8{ref.R, ref.B} {
			for ss := 0; ss < 64; ss++ {
				for ns := 0; ns < 64; ns++ {
					for ps := 8; ps < 56; ps++ {
						if !all && !(ps%8 == 3 || ps%8 == 7 || ps/8 == 3 || ps/8 == 5) {
							continue
						}
						p := &ref.Pos{EP: -1, White: white}
						p.Sq[sqi(6, 6)] = sign * ref.K  // g7
						p.Sq[sqi(3, 5)] = sign * ref.Q  // d6
						p.Sq[sqi(7, 3)] = sign * ref.Q  // h4
						p.Sq[sqi(0, 1)] = -sign * ref.K // a2
						if p.Sq[ss] != 0 || p.Sq[ns] != 0 || p.Sq[ps] != 0 || ss == ns || ss == ps || ns == ps {
							continue
						}
						p.Sq[ss], p.Sq[ns], p.Sq[ps] = -sign*slider, sign*ref.N, sign*ref.P
						if Valid(p) {
							emit(p)
						}
					}
				}
			}
		}
	}
}

// MobilityExtremes enumerates positions in which ONE piece has as many moves and captures as the
// board allows: a white queen, rook or bishop on every square of an otherwise empty board, and for
// every subset of its rays a black piece (knight, rook or bishop in turn) on the last square of the
// ray - all rays open to the edge, any number of them ending in a capture. The kings stand on the
// first pair of squares that keeps the position legal with neither side in check; both sides to
// move. Evaluations that tabulate or bound "number of moves of a piece" meet their extremes here
// (a queen in the centre: 27 moves, up to 8 of them captures).
func MobilityExtremes(all bool, emit func(p *ref.Pos)) {
	dirs := map[int8][][2]int{
		ref.R: {{1, 0}, {-1, 0}, {0, 1}, {0, -1}},
		ref.B: {{1, 1}, {1, -1}, {-1, 1}, {-1, -1}},
	}
	dirs[ref.Q] = append(append([][2]int{}, dirs[ref.R]...), dirs[ref.B]...)
	for _, x := range []int8{ref.Q, ref.R, ref.B} {
		for s := 0; s < 64; s++ {
			if f, r := s%8, s/8; !all && x != ref.Q && !(f >= 2 && f <= 5 && r >= 2 && r <= 5) {
				continue // quick: rooks and bishops in the centre only
			}
			// the last square of every ray
			var ends []int
			for _, d := range dirs[x] {
				f, r, last := s%8, s/8, -1
				for f+d[0] >= 0 && f+d[0] < 8 && r+d[1] >= 0 && r+d[1] < 8 {
					f, r = f+d[0], r+d[1]
					last = r*8 + f
				}
				if last >= 0 {
					ends = append(ends, last)
				}
			}
			for _, blocker := range []int8{ref.N, ref.R, ref.B} {
				if !all && blocker != ref.N && x != ref.Q {
					continue
				}
				for mask := 0; mask < 1<<len(ends); mask++ {
					if blocker != ref.N && mask == 0 {
						continue // the bare piece once is enough
					}
					base := &ref.Pos{EP: -1, White: true}
					base.Sq[s] = x
					for i, e := range ends {
						if mask&(1<<i) != 0 {
							base.Sq[e] = -blocker
						}
					}
					placed := false
					for wk := 0; wk < 64 && !placed; wk++ {
						if base.Sq[wk] != 0 || onRay(s, wk, dirs[ref.Q]) {
							continue
						}
						for bk := 63; bk >= 0 && !placed; bk-- {
							if base.Sq[bk] != 0 || bk == wk || onRay(s, bk, dirs[ref.Q]) || (abs(bk%8-wk%8) <= 1 && abs(bk/8-wk/8) <= 1) {
								continue
							}
							p := *base
							p.Sq[wk], p.Sq[bk] = ref.K, -ref.K
							if p.InCheck(true) || p.InCheck(false) {
								continue
							}
							placed = true
							for _, white := range []bool{true, false} {
								q := p
								q.White = white
								if Valid(&q) {
									emit(&q)
								}
							}
						}
					}
				}
			}
		}
	}
}

func onRay(from, to int, dirs [][2]int) bool {
	for _, d := range dirs {
		f, r := from%8, from/8
		for f+d[0] >= 0 && f+d[0] < 8 && r+d[1] >= 0 && r+d[1] < 8 {
			f, r = f+d[0], r+d[1]
			if r*8+f == to {
				return true
			}
		}
	}
	return false
}

func abs(x int) int {
	if x < 0 {
		return -x
	}
	return x
}

// FullDiagonalFamily enumerates positions in which all eight squares of a long diagonal are
// occupied: a white bishop or queen on each of its squares in turn, knights of either colour (every
// colouring) on the other seven, the kings on the first pair of squares off the diagonal that keeps
// the position legal; both sides to move. Line tables indexed by occupancy meet their last entry
// here (every square of the line occupied), which positions with few pieces never reach.
func FullDiagonalFamily(emit func(p *ref.Pos)) {
	queenDirs := [][2]int{{1, 0}, {-1, 0}, {0, 1}, {0, -1}, {1, 1}, {1, -1}, {-1, 1}, {-1, -1}}
	for _, anti := range []bool{false, true} {
		var line []int
		for i := 0; i < 8; i++ {
			f := i
			if anti {
				f = 7 - i
			}
			line = append(line, i*8+f)
		}
		for si, s := range line {
			for _, x := range []int8{ref.B, ref.Q} {
				for mask := 0; mask < 128; mask++ {
					base := &ref.Pos{EP: -1, White: true}
					k := 0
					for i, sq := range line {
						if i == si {
							base.Sq[sq] = x
							continue
						}
						if mask&(1<<k) != 0 {
							base.Sq[sq] = ref.N
						} else {
							base.Sq[sq] = -ref.N
						}
						k++
					}
					placed := false
					for wk := 0; wk < 64 && !placed; wk++ {
						if base.Sq[wk] != 0 {
							continue
						}
						for bk := 63; bk >= 0 && !placed; bk-- {
							if base.Sq[bk] != 0 || bk == wk || (x == ref.Q && onRay(s, bk, queenDirs)) || (abs(bk%8-wk%8) <= 1 && abs(bk/8-wk/8) <= 1) {
								continue
							}
							p := *base
							p.Sq[wk], p.Sq[bk] = ref.K, -ref.K
							if p.InCheck(true) || p.InCheck(false) {
								continue
							}
							placed = true
							for _, white := range []bool{true, false} {
								q := p
								q.White = white
								if Valid(&q) {
									emit(&q)
								}
							}
						}
					}
				}
			}
		}
	}
}
