package vs

// Happens-before data-race detection inside the explorer.
//
// The rewriter wraps the plain (non-atomic) memory accesses of selected morlock files:
//
//	x.f            -> *vs.R(&x.f, "file.go:12")        (load)
//	x.f = v        -> *vs.W(&x.f, "file.go:13") = v    (store)
//	m[k]           -> vs.MR(m, site)[k] / vs.MW(m, site)[k] = v
//
// Under the scheduler every thread carries a vector clock; the synchronisation operations of
// the explored schedule (atomics, mutexes, channels, wait groups, goroutine creation) move the
// clocks exactly as the Go memory model orders them - or more (never less): where the shim is
// not precise it adds happens-before edges, so a reported race is a real one, never an artefact.
// Two accesses to the same byte, at least one a store, that the clocks leave unordered are a
// data race OF THIS SCHEDULE; as every schedule of a harness is explored, "no data race" is
// decided for the harness, not sampled.
//
// A data race also bounds what the explorer itself covers: between two scheduling points a
// thread runs atomically, which is all a data-race-free program can observe. Sites named in
// Promoted therefore become scheduling points themselves, so that the checks which do not
// forbid races as such (the driver checks) explore the racing accesses at full granularity
// (mc.Main re-runs a check with the racing sites promoted).

import (
	"fmt"
	"reflect"
	"sort"
	"unsafe"
)

type vclock []int32

func (a vclock) get(i int) int32 {
	if i < len(a) {
		return a[i]
	}
	return 0
}

func (a vclock) joined(b vclock) vclock {
	if len(b) > len(a) {
		n := make(vclock, len(b))
		copy(n, a)
		a = n
	}
	for i, v := range b {
		if v > a[i] {
			a[i] = v
		}
	}
	return a
}

func (a vclock) clone() vclock { return append(vclock(nil), a...) }

type stamp struct {
	tid  int
	clk  int32
	site string
}

type byteCell struct {
	w    stamp // last store (site == "" : none)
	r    []stamp
	keep unsafe.Pointer // keeps the object alive, so that its address is not reused within the execution
}

// Race is one unordered pair of conflicting accesses.
type Race struct {
	First, Second string // "store@file:line" / "load@file:line"; First was executed first in this schedule
}

func (r Race) String() string { return r.First + " || " + r.Second }

// Sites returns the source sites of both accesses.
func (r Race) Sites() []string {
	cut := func(s string) string {
		for i := 0; i < len(s); i++ {
			if s[i] == '@' {
				return s[i+1:]
			}
		}
		return s
	}
	return []string{cut(r.First), cut(r.Second)}
}

// Promoted lists access sites that are scheduling points of their own.
var Promoted = map[string]bool{}

type hbState struct {
	objs     map[uintptr]vclock
	cells    map[uintptr]*byteCell
	races    map[string]Race
	accesses int64
	quiet    bool // the scheduler goroutine itself (observer) is running instrumented code
}

func (s *Sched) hbInit() {
	s.hb = &hbState{objs: map[uintptr]vclock{}, cells: map[uintptr]*byteCell{}, races: map[string]Race{}}
}

// Races returns the data races of the execution in canonical order.
func (s *Sched) Races() []Race {
	var out []Race
	for _, r := range s.hb.races {
		out = append(out, r)
	}
	sort.Slice(out, func(i, j int) bool { return out[i].String() < out[j].String() })
	return out
}

// Accesses returns the number of instrumented plain accesses of the execution.
func (s *Sched) Accesses() int64 { return s.hb.accesses }

func (t *thread) tick() {
	for len(t.vc) <= t.id {
		t.vc = append(t.vc, 0)
	}
	t.vc[t.id]++
}

func (s *Sched) hbSpawn(parent, child *thread) {
	if parent != nil {
		child.vc = parent.vc.clone()
		parent.tick()
	}
	child.tick()
}

func (s *Sched) acquire(t *thread, obj uintptr) {
	if c, ok := s.hb.objs[obj]; ok {
		t.vc = t.vc.joined(c)
	}
}

func (s *Sched) release(t *thread, obj uintptr) {
	s.hb.objs[obj] = s.hb.objs[obj].clone().joined(t.vc)
	t.tick()
}

// hbSync moves the clocks for the operation thread t is about to perform.
func (s *Sched) hbSync(t *thread, o *op) {
	switch o.kind {
	case "start", "yield", "sleep", "since", "maporder", "timer", "plain", "plain-load", "plain-store":
		return
	case "aload", "pload", "lock", "rlock", "wg-wait":
		s.acquire(t, o.obj) // observes what earlier stores / unlocks / Done calls published
	case "astore", "pstore", "unlock", "runlock":
		s.release(t, o.obj)
	case "select":
		// the arm performs the real operation afterwards: every channel of the statement counts
		for _, obj := range o.objs {
			s.acquire(t, obj)
		}
		for _, obj := range o.objs {
			s.release(t, obj)
		}
	default:
		if o.harness {
			// a harness thread waiting for a condition it observes from outside: it has seen everything
			for _, u := range s.threads {
				t.vc = t.vc.joined(u.vc)
			}
			return
		}
		// read-modify-write atomics, channel operations, wait-group counting, try-lock, anything
		// unknown: ordered both ways
		s.acquire(t, o.obj)
		s.release(t, o.obj)
	}
}

func (s *Sched) access(p unsafe.Pointer, size uintptr, store bool, site string) {
	h := s.hb
	if h == nil || h.quiet || s.killed || s.cur == nil || size == 0 {
		return
	}
	if Promoted[site] {
		point(&op{kind: "plain", enabled: alwaysEnabled, obj: uintptr(p), hot: true})
	}
	t := s.cur
	h.accesses++
	if size > 256 {
		size = 256
	}
	me := stamp{t.id, t.vc.get(t.id), site}
	kind := "load@"
	if store {
		kind = "store@"
	}
	ordered := func(e stamp) bool { return e.tid == t.id || e.clk <= t.vc.get(e.tid) }
	report := func(e stamp, ekind string) {
		r := Race{First: ekind + e.site, Second: kind + site}
		h.races[r.String()] = r
	}
	base := uintptr(p)
	for i := uintptr(0); i < size; i++ {
		c := h.cells[base+i]
		if c == nil {
			c = &byteCell{}
			if i == 0 {
				c.keep = p
			}
			h.cells[base+i] = c
		}
		if c.w.site != "" && !ordered(c.w) {
			report(c.w, "store@")
		}
		if store {
			for _, e := range c.r {
				if !ordered(e) {
					report(e, "load@")
				}
			}
			c.w, c.r = me, c.r[:0]
			continue
		}
		found := false
		for j := range c.r {
			if c.r[j].tid == t.id {
				c.r[j], found = me, true
				break
			}
		}
		if !found {
			c.r = append(c.r, me)
		}
	}
}

// R marks a plain load of *p.
func R[T any](p *T, site string) *T {
	if s := S; s != nil {
		s.access(unsafe.Pointer(p), unsafe.Sizeof(*p), false, site)
	}
	return p
}

// W marks a plain store to *p (also used for read-modify-write statements such as x.f += 1).
func W[T any](p *T, site string) *T {
	if s := S; s != nil {
		s.access(unsafe.Pointer(p), unsafe.Sizeof(*p), true, site)
	}
	return p
}

func mapAddr(m any) unsafe.Pointer {
	v := reflect.ValueOf(m)
	if v.Kind() != reflect.Map || v.IsNil() {
		return nil
	}
	return v.UnsafePointer()
}

// MR marks a lookup in (or iteration over) the map m; MW an insertion or deletion.
func MR[M any](m M, site string) M {
	if s := S; s != nil {
		if p := mapAddr(m); p != nil {
			s.access(p, 1, false, site)
		}
	}
	return m
}

func MW[M any](m M, site string) M {
	if s := S; s != nil {
		if p := mapAddr(m); p != nil {
			s.access(p, 1, true, site)
		}
	}
	return m
}

func plainAccess(p unsafe.Pointer, size uintptr, store bool, site []string) {
	if s := S; s != nil {
		at := "counter"
		if len(site) > 0 {
			at = site[0]
		}
		was := Promoted[at]
		delete(Promoted, at) // PlainInc / PlainDec are scheduling points already
		s.access(p, size, store, at)
		if was {
			Promoted[at] = true
		}
	}
}

// MapOrder returns the keys of m in the order a `for range m` loop of the rewritten code
// visits them: Go leaves that order unspecified, so under the scheduler it is an environment
// choice (canonical order by default, the reverse for one deviation); running free it is the
// canonical order. A result that depends on map iteration order shows up as a difference
// between two explored executions instead of as an unreproducible flake.
func MapOrder[M ~map[K]V, K comparable, V any](m M) []K {
	keys := make([]K, 0, len(m))
	for k := range m {
		keys = append(keys, k)
	}
	if len(keys) < 2 {
		return keys
	}
	names := make(map[K]string, len(keys))
	for _, k := range keys {
		names[k] = fmt.Sprintf("%v", k)
	}
	sort.SliceStable(keys, func(i, j int) bool { return names[keys[i]] < names[keys[j]] })
	if S != nil && !S.killed && S.cur != nil && (S.hb == nil || !S.hb.quiet) {
		o := &op{kind: "maporder", enabled: alwaysEnabled, nalt: func() int { return 2 }}
		point(o)
		if o.alt == 1 {
			for i, j := 0, len(keys)-1; i < j; i, j = i+1, j-1 {
				keys[i], keys[j] = keys[j], keys[i]
			}
		}
	}
	return keys
}
