// Package vs is the shim the rewritten morlock sources call instead of Go's concurrency
// primitives, plus the controlled scheduler behind it. With no active scheduler every
// operation passes through to the real primitive, so rewritten code also runs free (that is
// what the separate -race pass uses).
//
// One goroutine runs at a time. Every shim operation is a scheduling point: the running
// goroutine records its pending operation (with an enabled() predicate over real channel
// lengths / shim state), hands control to the scheduler and parks; the scheduler computes the
// enabled set in canonical order, takes the next choice from the replay prefix (or choice 0),
// records the decision and wakes exactly one goroutine, which performs the real - now
// non-blocking - operation and runs on to its next point.
package vs

import (
	"fmt"
	"os"
	"reflect"
	"runtime"
	"sort"
	"strings"
	"sync"
	"sync/atomic"
	"time"
	"unsafe"
)

type op struct {
	kind    string
	enabled func() bool
	nalt    func() int // number of internal alternatives once chosen (ready select cases, env answers)
	alt     int        // alternative picked by the scheduler
	poll    bool       // a select that fell through to default: the thread is spinning
	idle    bool       // a wait for "enough time has passed": also enabled when nothing else can run
	obj     uintptr    // identity of the object touched (for the "threads met" statistic and the clocks)
	objs    []uintptr  // select: every channel of the statement
	harness bool       // a harness thread waiting for something it observes from outside
	hot     bool       // a plain access at a site known to race (a scheduling point because of that)
	lazy    bool       // may run at any time but the deterministic scheduler never prefers it: running it early costs one deviation, so "this happens at ANY instant" is covered by deviation bound 1
}

type thread struct {
	id     int
	name   string
	wake   chan struct{}
	op     *op
	done   bool
	steps  int
	vc     vclock
	atomic int // > 0: inside vs.Atomically
}

// Point is one recorded scheduling decision.
type Point struct {
	N      int  // number of alternatives at this point
	Choice int  // alternative taken (0 = the deterministic scheduler's own choice)
	Kind   byte // 't' which thread runs, 'a' which ready select arm, 'e' environment answer
	Hot    bool // a thread is at, or the running thread has just made, a plain access known to race
	Lazy   int  // alternatives >= Lazy are lazy threads (N if none)
}

type Sched struct {
	threads []*thread
	cur     *thread
	yield   chan *thread
	prefix  []int
	killed  bool
	lastOp  *op

	Trace      []Point
	Steps      int
	Horizon    int
	Observer   func(step int)
	Panics     []string
	Blocked    []string // threads parked at the end: name:kind
	Events     []string
	Diverged   bool
	HitHorizon bool
	Met        bool            // two different threads touched a common object
	touched    map[uintptr]int // object -> first thread id
	EnvSince   bool            // time.Since answers are environment choices
	Clock      int64           // extra virtual nanoseconds added by "long" environment answers
	hb         *hbState
}

// S is the active scheduler; nil when code runs free.
var S *Sched

func alwaysEnabled() bool { return true }

// Log appends a line to the execution's event log.
func Log(format string, args ...any) {
	if s := S; s != nil {
		s.Events = append(s.Events, fmt.Sprintf(format, args...))
	}
}

// LastRun returns the name of the thread that executed the most recent step ("" when running free).
func LastRun() string {
	if s := S; s != nil && s.cur != nil {
		return s.cur.name
	}
	return ""
}

// Step returns the number of scheduler steps executed so far (0 when running free).
func Step() int {
	if s := S; s != nil {
		return s.Steps
	}
	return int(time.Since(FreeStart) / (20 * time.Microsecond))
}

func (s *Sched) spawn(name string, f func()) *thread {
	t := &thread{id: len(s.threads), name: name, wake: make(chan struct{}), op: &op{kind: "start", enabled: alwaysEnabled}}
	s.threads = append(s.threads, t)
	s.hbSpawn(s.cur, t)
	go func() {
		defer func() {
			if r := recover(); r != nil {
				buf := make([]byte, 4096)
				n := runtime.Stack(buf, false)
				s.Panics = append(s.Panics, fmt.Sprintf("%s: %v\n%s", t.name, r, buf[:n]))
			}
			t.done = true
			s.yield <- t
		}()
		<-t.wake
		if s.killed {
			runtime.Goexit()
		}
		f()
	}()
	return t
}

func point(o *op) {
	s := S
	if s == nil {
		return
	}
	if s.killed {
		runtime.Goexit()
	}
	t := s.cur
	t.op = o
	s.yield <- t
	<-t.wake
	if s.killed {
		runtime.Goexit()
	}
}

func (s *Sched) next(n int, kind byte) int {
	c := 0
	if len(s.Trace) < len(s.prefix) {
		c = s.prefix[len(s.Trace)]
		if c >= n {
			s.Diverged = true
			c = 0
		}
	}
	s.Trace = append(s.Trace, Point{N: n, Choice: c, Kind: kind})
	return c
}

// Choices returns the choice sequence of the execution (a replayable schedule).
func (s *Sched) Choices() []int {
	out := make([]int, len(s.Trace))
	for i, p := range s.Trace {
		out[i] = p.Choice
	}
	return out
}

var hangGuard = 20 * time.Second

var progress atomic.Int64
var watchdogOnce sync.Once

// watchdog turns a goroutine that blocks outside the shim (in code the rewriter did not see)
// into a loud harness error instead of a silent hang.
func watchdog() {
	go func() {
		last, since := int64(-1), time.Now()
		for {
			time.Sleep(2 * time.Second)
			cur := progress.Load()
			if cur != last || S == nil {
				last, since = cur, time.Now()
				continue
			}
			if time.Since(since) > hangGuard {
				fmt.Fprintln(os.Stderr, "HARNESS-ERROR: a goroutine blocked outside the shim - unsupported construct")
				buf := make([]byte, 1<<16)
				n := runtime.Stack(buf, true)
				os.Stderr.Write(buf[:n])
				os.Exit(2)
			}
		}
	}()
}

func (s *Sched) waitYield() *thread {
	progress.Add(1)
	return <-s.yield
}

// Run executes main under the scheduler: replays prefix, then always takes choice 0.
// The deterministic scheduler prefers the running thread if it is still enabled, else the
// enabled thread with the lowest id; after a poll (a select that fell through to default) it
// moves on round-robin so that a spinning thread cannot starve the others.
func Run(main func(), prefix []int, horizon int, envSince bool, observer func(step int)) *Sched {
	watchdogOnce.Do(watchdog)
	s := &Sched{yield: make(chan *thread), prefix: prefix, Horizon: horizon, Observer: observer, touched: map[uintptr]int{}, EnvSince: envSince}
	s.hbInit()
	S = s
	s.spawn("main", main)
	for {
		var order []*thread
		polled := s.cur != nil && s.lastOp != nil && s.lastOp.poll
		curEnabled := false
		var held *thread
		var lazies []*thread
		inAtomic := s.cur != nil && !s.cur.done && s.cur.atomic > 0 && s.cur.op.enabled()
		for _, t := range s.threads {
			if inAtomic && t != s.cur {
				continue // a harness thread inside vs.Atomically: its steps are no scheduling points
			}
			if !t.done && t.op.enabled() {
				if t.id == DelayThread && s.Steps < DelayUntil {
					held = t
					continue
				}
				if t.op.lazy {
					lazies = append(lazies, t)
					continue
				}
				if t == s.cur {
					curEnabled = true
				} else {
					order = append(order, t)
				}
			}
		}
		if held != nil && !curEnabled && len(order) == 0 {
			order = append(order, held) // nothing else can run: the slow thread gets its turn
		}
		if !curEnabled && len(order) == 0 {
			// everything is parked: time passes, so whoever waits for an instant gets it
			for _, t := range s.threads {
				if !t.done && t.op.idle {
					order = append(order, t)
					break
				}
			}
		}
		switch {
		case curEnabled && !polled:
			order = append([]*thread{s.cur}, order...)
		case curEnabled && polled:
			// round-robin: threads after cur first, then those before, cur last
			var after, before []*thread
			for _, t := range order {
				if t.id > s.cur.id {
					after = append(after, t)
				} else {
					before = append(before, t)
				}
			}
			order = append(append(after, before...), s.cur)
		}
		order = append(order, lazies...) // last: taken by default only when nothing else can run
		if len(order) == 0 {
			break
		}
		if s.Steps >= s.Horizon {
			s.HitHorizon = true
			break
		}
		c := 0
		if len(order) > 1 {
			c = s.next(len(order), 't')
			pt := &s.Trace[len(s.Trace)-1]
			pt.Lazy = len(order) - len(lazies)
			pt.Hot = s.lastOp != nil && s.lastOp.hot
			for _, t := range order {
				if t.op.hot {
					pt.Hot = true
				}
			}
		}
		t := order[c]
		if c != 0 {
			Log("  [deviation at step %d: %s(%s) runs instead of %s(%s)]", s.Steps, t.name, t.op.kind, order[0].name, order[0].op.kind)
		}
		if t.op.nalt != nil {
			if n := t.op.nalt(); n > 1 {
				kind := byte('a')
				if t.op.kind == "since" || t.op.kind == "maporder" {
					kind = 'e'
				}
				t.op.alt = s.next(n, kind)
			}
		}
		if t.op.obj != 0 {
			if first, ok := s.touched[t.op.obj]; !ok {
				s.touched[t.op.obj] = t.id
			} else if first != t.id {
				s.Met = true
			}
		}
		if s.cur != nil && s.cur != t && t.op.kind == "yield" {
			s.Met = true // function-entry yields: two threads interleave inside the instrumented packages
		}
		s.cur = t
		s.lastOp = t.op
		s.hbSync(t, t.op)
		s.Steps++
		t.steps++
		t.wake <- struct{}{}
		s.waitYield()
		if s.Observer != nil {
			s.hb.quiet = true
			s.Observer(s.Steps)
			s.hb.quiet = false
		}
	}
	for _, t := range s.threads {
		if !t.done {
			s.Blocked = append(s.Blocked, t.name+":"+t.op.kind)
		}
	}
	// release whatever is left: parked goroutines exit through runtime.Goexit
	s.killed = true
	for i := 0; i < len(s.threads); i++ {
		t := s.threads[i]
		if !t.done {
			s.cur = t
			t.wake <- struct{}{}
			for !t.done {
				s.waitYield()
			}
		}
	}
	S = nil
	return s
}

// ---------------------------------------------------------------------------------------------
// goroutines

// FreeWG tracks goroutines started while running free, so that the race pass can wait for them.
var FreeWG sync.WaitGroup

// FreeStart is the reference instant of a free run: Step() then counts 20-microsecond ticks.
var FreeStart = time.Now()

func goFree(f func()) {
	FreeWG.Add(1)
	go func() {
		defer FreeWG.Done()
		f()
	}()
}

func Go(f func()) {
	s := S
	if s == nil {
		goFree(f)
		return
	}
	if s.killed {
		return
	}
	s.spawn(fmt.Sprintf("g%d", len(s.threads)), f)
}

// GoNamed starts a named harness thread.
func GoNamed(name string, f func()) {
	s := S
	if s == nil {
		goFree(f)
		return
	}
	if s.killed {
		return
	}
	s.spawn(name, f)
}

// Yield is a plain scheduling point (function-entry yields of the C18 build).
func Yield() { point(&op{kind: "yield", enabled: alwaysEnabled}) }

// WaitStep parks the calling harness thread until the scheduler has executed k steps, or until
// nothing else can run (time passes while everybody waits).
func WaitStep(kind string, k int) {
	if S == nil {
		for Step() < k {
			time.Sleep(200 * time.Microsecond)
		}
		return
	}
	s := S
	point(&op{kind: kind, enabled: func() bool { return s.Steps >= k }, idle: true, harness: true})
}

// WaitLazy parks the calling harness thread until the explorer chooses to run it (one deviation,
// at any scheduling point) or nothing else can run.
// Atomically runs f (on a harness thread) without scheduling points: whatever synchronisation
// operations f performs, no other thread runs in between. For adversary threads whose own
// interleavings are not the subject (a competitor that stores "all at once" at an instant the
// explorer chooses).
func Atomically(f func()) {
	if s := S; s != nil && s.cur != nil {
		t := s.cur
		t.atomic++
		defer func() { t.atomic-- }()
	}
	f()
}

func WaitLazy(kind string) {
	if S == nil {
		time.Sleep(2 * time.Millisecond)
		return
	}
	point(&op{kind: kind, enabled: alwaysEnabled, lazy: true, harness: true})
}

// WaitUntil parks the calling harness thread until cond holds.
func WaitUntil(kind string, cond func() bool) {
	if S == nil {
		for !cond() {
			time.Sleep(200 * time.Microsecond)
		}
		return
	}
	point(&op{kind: kind, enabled: cond, harness: true})
}

// ---------------------------------------------------------------------------------------------
// channels

// Running free (no scheduler) other goroutines really run in parallel, and the two-step protocol of
// the rewritten select statements ("Select says which arm is ready, the arm then performs the
// operation") is no longer atomic: between the two another goroutine can take the value (the arm
// would block for ever where the real select would not) or put one in (a closedness probe would
// take and drop it). Running free, Select therefore performs the RECEIVE of the chosen arm itself,
// atomically, with reflect.Select, and parks what it received (value or "closed") for the arm of the
// same goroutine to pick up. Under the scheduler only one thread runs at a time and none of this
// applies.
var freeStash sync.Map // channel pointer -> *stash

type parked struct {
	owner uint64 // goroutine that performed the receive
	val   reflect.Value
	ok    bool
}

type stash struct {
	mu   sync.Mutex
	vals []parked
}

// gid returns the id of the calling goroutine (running free only; parsed from the stack header).
func gid() uint64 {
	var buf [64]byte
	b := buf[:runtime.Stack(buf[:], false)] // "goroutine 123 [running]:..."
	var id uint64
	for _, c := range b[len("goroutine "):] {
		if c < '0' || c > '9' {
			break
		}
		id = id*10 + uint64(c-'0')
	}
	return id
}

func stashPush(ptr uintptr, p parked) {
	q, _ := freeStash.LoadOrStore(ptr, &stash{})
	st := q.(*stash)
	st.mu.Lock()
	st.vals = append(st.vals, p)
	st.mu.Unlock()
}

// stashPop returns what a Select of the calling goroutine received on that channel, if anything.
func stashPop(ptr uintptr) (parked, bool) {
	q, ok := freeStash.Load(ptr)
	if !ok {
		return parked{}, false
	}
	st := q.(*stash)
	me := gid()
	st.mu.Lock()
	defer st.mu.Unlock()
	for i, p := range st.vals {
		if p.owner == me {
			st.vals = append(st.vals[:i], st.vals[i+1:]...)
			return p, true
		}
	}
	return parked{}, false
}

func recvReady(v reflect.Value) bool {
	if v.Len() > 0 {
		return true
	}
	if v.Cap() > 0 {
		// buffered and empty: ready only if closed; a probe on an open empty channel returns !ok without value
		x, ok := v.TryRecv()
		if x.IsValid() && ok {
			fmt.Fprintln(os.Stderr, "HARNESS-ERROR: a value appeared in an empty channel while a single thread was running")
			os.Exit(2)
		}
		return x.IsValid() && !ok
	}
	x, ok := v.TryRecv()
	if x.IsValid() && ok {
		fmt.Fprintln(os.Stderr, "HARNESS-ERROR: value rendezvous on an unbuffered channel is not supported by the shim")
		os.Exit(2)
	}
	return x.IsValid() && !ok // closed
}

func sendReady(v reflect.Value) bool {
	if v.Cap() == 0 {
		fmt.Fprintln(os.Stderr, "HARNESS-ERROR: value send on an unbuffered channel is not supported by the shim")
		os.Exit(2)
	}
	return v.Len() < v.Cap() // a send on a closed channel is enabled and really panics
}

func Send[T any](ch chan<- T, v T) {
	if S != nil {
		rv := reflect.ValueOf(ch)
		point(&op{kind: "send", enabled: func() bool { return sendReady(rv) }, obj: rv.Pointer()})
	}
	ch <- v
}

func Recv[T any](ch <-chan T) T {
	v, _ := Recv2(ch)
	return v
}

func Recv2[T any](ch <-chan T) (T, bool) {
	if S != nil {
		rv := reflect.ValueOf(ch)
		point(&op{kind: "recv", enabled: func() bool { return recvReady(rv) }, obj: rv.Pointer()})
	}
	v, ok := <-ch
	return v, ok
}

func Close[T any](ch chan<- T) {
	if S != nil {
		point(&op{kind: "close", enabled: alwaysEnabled, obj: reflect.ValueOf(ch).Pointer()})
	}
	close(ch)
}

type Case struct {
	send bool
	ch   reflect.Value
}

func RecvCase[T any](ch <-chan T) Case { return Case{false, reflect.ValueOf(ch)} }
func SendCase[T any](ch chan<- T) Case { return Case{true, reflect.ValueOf(ch)} }

func (c Case) ready() bool {
	if c.ch.IsNil() {
		return false
	}
	if c.send {
		return sendReady(c.ch)
	}
	return recvReady(c.ch)
}

// Select returns the index of a ready case (-1 = default); the arm then performs the real,
// now non-blocking, operation. With several ready arms the choice is a scheduling decision.
func Select(hasDefault bool, cases ...Case) int {
	ready := func() []int {
		var r []int
		for i, c := range cases {
			if c.ready() {
				r = append(r, i)
			}
		}
		return r
	}
	if S == nil {
		// receive arms: one atomic reflect.Select (which performs the receive; the value is parked for
		// the arm); send arms keep the two-step protocol (the value to send is only known to the arm)
		var rc []reflect.SelectCase
		var idx []int
		for i, c := range cases {
			if !c.send && !c.ch.IsNil() {
				rc = append(rc, reflect.SelectCase{Dir: reflect.SelectRecv, Chan: c.ch})
				idx = append(idx, i)
			}
		}
		rc = append(rc, reflect.SelectCase{Dir: reflect.SelectDefault})
		me := gid()
		for {
			if chosen, val, ok := reflect.Select(rc); chosen < len(idx) {
				stashPush(cases[idx[chosen]].ch.Pointer(), parked{owner: me, val: val, ok: ok})
				return idx[chosen]
			}
			for i, c := range cases {
				if c.send && !c.ch.IsNil() && sendReady(c.ch) {
					return i
				}
			}
			if hasDefault {
				return -1
			}
			time.Sleep(50 * time.Microsecond)
		}
	}
	o := &op{kind: "select"}
	if len(cases) > 0 && !cases[0].ch.IsNil() {
		o.obj = cases[0].ch.Pointer()
	}
	for _, c := range cases {
		if !c.ch.IsNil() {
			o.objs = append(o.objs, c.ch.Pointer())
		}
	}
	o.enabled = func() bool { return hasDefault || len(ready()) > 0 }
	o.nalt = func() int {
		n := len(ready())
		o.poll = n == 0
		return n
	}
	point(o)
	r := ready()
	if len(r) == 0 {
		return -1
	}
	return r[o.alt%len(r)]
}

func RecvNow[T any](ch <-chan T) T {
	v, _ := Recv2Now(ch)
	return v
}

func Recv2Now[T any](ch <-chan T) (T, bool) {
	if S == nil {
		// the Select of this goroutine has performed the receive already
		if p, ok := stashPop(reflect.ValueOf(ch).Pointer()); ok {
			if !p.ok {
				var zero T
				return zero, false
			}
			return p.val.Interface().(T), true
		}
	}
	v, ok := <-ch
	return v, ok
}
func SendNow[T any](ch chan<- T, v T) { ch <- v }

// ---------------------------------------------------------------------------------------------
// sync

type Mutex struct {
	real   sync.Mutex
	locked bool
}

func (m *Mutex) Lock() {
	if S == nil {
		m.real.Lock()
		return
	}
	point(&op{kind: "lock", enabled: func() bool { return !m.locked }, obj: uintptr(unsafe.Pointer(m))})
	m.locked = true
}

func (m *Mutex) Unlock() {
	if S == nil {
		m.real.Unlock()
		return
	}
	point(&op{kind: "unlock", enabled: alwaysEnabled, obj: uintptr(unsafe.Pointer(m))})
	m.locked = false
}

type AtomicBool struct{ v atomic.Bool }

func (b *AtomicBool) Load() bool {
	point(&op{kind: "aload", enabled: alwaysEnabled, obj: uintptr(unsafe.Pointer(b))})
	return b.v.Load()
}
func (b *AtomicBool) Store(x bool) {
	point(&op{kind: "astore", enabled: alwaysEnabled, obj: uintptr(unsafe.Pointer(b))})
	b.v.Store(x)
}
func (b *AtomicBool) CompareAndSwap(o, n bool) bool {
	point(&op{kind: "acas", enabled: alwaysEnabled, obj: uintptr(unsafe.Pointer(b))})
	return b.v.CompareAndSwap(o, n)
}

type AtomicUint64 struct{ v atomic.Uint64 }

func (b *AtomicUint64) Load() uint64 {
	point(&op{kind: "aload", enabled: alwaysEnabled, obj: uintptr(unsafe.Pointer(b))})
	return b.v.Load()
}
func (b *AtomicUint64) Store(x uint64) {
	point(&op{kind: "astore", enabled: alwaysEnabled, obj: uintptr(unsafe.Pointer(b))})
	b.v.Store(x)
}
func (b *AtomicUint64) Add(x uint64) uint64 {
	point(&op{kind: "aadd", enabled: alwaysEnabled, obj: uintptr(unsafe.Pointer(b))})
	return b.v.Add(x)
}

func LoadPointer(addr *unsafe.Pointer) unsafe.Pointer {
	point(&op{kind: "pload", enabled: alwaysEnabled, obj: uintptr(unsafe.Pointer(addr))})
	return atomic.LoadPointer(addr)
}

func CompareAndSwapPointer(addr *unsafe.Pointer, o, n unsafe.Pointer) bool {
	point(&op{kind: "pcas", enabled: alwaysEnabled, obj: uintptr(unsafe.Pointer(addr))})
	return atomic.CompareAndSwapPointer(addr, o, n)
}

func StorePointer(addr *unsafe.Pointer, n unsafe.Pointer) {
	point(&op{kind: "pstore", enabled: alwaysEnabled, obj: uintptr(unsafe.Pointer(addr))})
	atomic.StorePointer(addr, n)
}

func LoadUint64(addr *uint64) uint64 {
	point(&op{kind: "aload", enabled: alwaysEnabled, obj: uintptr(unsafe.Pointer(addr))})
	return atomic.LoadUint64(addr)
}

func AddUint64(addr *uint64, d uint64) uint64 {
	point(&op{kind: "aadd", enabled: alwaysEnabled, obj: uintptr(unsafe.Pointer(addr))})
	return atomic.AddUint64(addr, d)
}

func StoreUint64(addr *uint64, v uint64) {
	point(&op{kind: "astore", enabled: alwaysEnabled, obj: uintptr(unsafe.Pointer(addr))})
	atomic.StoreUint64(addr, v)
}

type integer interface {
	~int | ~int32 | ~int64 | ~uint | ~uint32 | ~uint64
}

// PlainInc is what a non-atomic x.f++ really is: a load and a store that another thread can
// come between.
func PlainInc[T integer](p *T, site ...string) {
	hot := len(site) > 0 && Promoted[site[0]]
	point(&op{kind: "plain-load", enabled: alwaysEnabled, obj: uintptr(unsafe.Pointer(p)), hot: hot})
	plainAccess(unsafe.Pointer(p), unsafe.Sizeof(*p), false, site)
	x := *p
	point(&op{kind: "plain-store", enabled: alwaysEnabled, obj: uintptr(unsafe.Pointer(p)), hot: hot})
	plainAccess(unsafe.Pointer(p), unsafe.Sizeof(*p), true, site)
	*p = x + 1
}

func PlainDec[T integer](p *T, site ...string) {
	hot := len(site) > 0 && Promoted[site[0]]
	point(&op{kind: "plain-load", enabled: alwaysEnabled, obj: uintptr(unsafe.Pointer(p)), hot: hot})
	plainAccess(unsafe.Pointer(p), unsafe.Sizeof(*p), false, site)
	x := *p
	point(&op{kind: "plain-store", enabled: alwaysEnabled, obj: uintptr(unsafe.Pointer(p)), hot: hot})
	plainAccess(unsafe.Pointer(p), unsafe.Sizeof(*p), true, site)
	*p = x - 1
}

// ---------------------------------------------------------------------------------------------
// time

type Timer struct{ stopped atomic.Bool }

func (t *Timer) Stop() bool { return !t.stopped.Swap(true) }

// DelayThread/DelayUntil hold one thread (by creation index) back until the scheduler has
// executed DelayUntil steps, unless nothing else can run: "this goroutine is slow" is an
// enumerated dimension of a scenario family, because delay bounding would charge one deviation
// per round for it. DelayThread < 0: none.
var DelayThread, DelayUntil = -1, 0

// ChanCap, when positive, scales the buffered channels of the rewritten code down: a channel made
// with a literal capacity of 8 or more gets this capacity instead, so that back-pressure (a full
// output buffer) is reachable within a short execution. 0: capacities as written.
var ChanCap int

// Cap is what the rewriter puts around the literal capacity of make(chan T, N), N >= 8.
func Cap(n int) int {
	if ChanCap > 0 && n > ChanCap {
		return ChanCap
	}
	return n
}

// TimerRelease, when set, delays every timer thread until the scheduler has executed that
// many steps: the instant at which "time is up" is an enumerated dimension of a scenario.
// Negative: timers are lazy threads (any instant, one deviation each).
var TimerRelease int

func AfterFunc(d time.Duration, f func()) *Timer {
	s := S
	t := &Timer{}
	if s == nil {
		time.AfterFunc(d, func() {
			if !t.stopped.Load() {
				f()
			}
		})
		return t
	}
	if s.killed {
		return t
	}
	rel := TimerRelease
	th := s.spawn(fmt.Sprintf("timer%d", len(s.threads)), func() {
		if !t.stopped.Load() {
			f()
		}
	})
	th.op = &op{kind: "timer", enabled: func() bool { return s.Steps >= rel }, idle: true}
	if rel < 0 {
		th.op = &op{kind: "timer", enabled: alwaysEnabled, lazy: true} // fires at any instant the explorer chooses
	}
	return t
}

var epoch = time.Unix(1_700_000_000, 0)

func Now() time.Time {
	s := S
	if s == nil {
		return time.Now()
	}
	return epoch.Add(time.Duration(s.Steps)*time.Microsecond + time.Duration(s.Clock))
}

// Since: by default a short time has passed (one microsecond per step); with EnvSince the
// environment may answer "longer than any limit" instead (a deviation).
func Since(t time.Time) time.Duration {
	s := S
	if s == nil {
		return time.Since(t)
	}
	if s.EnvSince {
		o := &op{kind: "since", enabled: alwaysEnabled, nalt: func() int { return 2 }}
		point(o)
		if o.alt == 1 {
			s.Clock += int64(1000 * time.Hour)
		}
	}
	return Now().Sub(t)
}

// ---------------------------------------------------------------------------------------------

// Summary renders a canonical description of how an execution ended (which kinds of threads
// are parked where), for outcome classes.
func (s *Sched) Summary() string {
	kinds := map[string]int{}
	for _, b := range s.Blocked {
		kinds[b[strings.Index(b, ":")+1:]]++
	}
	return fmt.Sprint(kinds)
}

// ---------------------------------------------------------------------------------------------
// the rest of the primitives a change to morlock might plausibly start using

func (b *AtomicBool) Swap(x bool) bool {
	point(&op{kind: "aswap", enabled: alwaysEnabled, obj: uintptr(unsafe.Pointer(b))})
	return b.v.Swap(x)
}

func (b *AtomicUint64) Swap(x uint64) uint64 {
	point(&op{kind: "aswap", enabled: alwaysEnabled, obj: uintptr(unsafe.Pointer(b))})
	return b.v.Swap(x)
}

func (b *AtomicUint64) CompareAndSwap(o, n uint64) bool {
	point(&op{kind: "acas", enabled: alwaysEnabled, obj: uintptr(unsafe.Pointer(b))})
	return b.v.CompareAndSwap(o, n)
}

type AtomicInt64 struct{ v atomic.Int64 }

func (b *AtomicInt64) Load() int64 {
	point(&op{kind: "aload", enabled: alwaysEnabled, obj: uintptr(unsafe.Pointer(b))})
	return b.v.Load()
}
func (b *AtomicInt64) Store(x int64) {
	point(&op{kind: "astore", enabled: alwaysEnabled, obj: uintptr(unsafe.Pointer(b))})
	b.v.Store(x)
}
func (b *AtomicInt64) Add(x int64) int64 {
	point(&op{kind: "aadd", enabled: alwaysEnabled, obj: uintptr(unsafe.Pointer(b))})
	return b.v.Add(x)
}
func (b *AtomicInt64) Swap(x int64) int64 {
	point(&op{kind: "aswap", enabled: alwaysEnabled, obj: uintptr(unsafe.Pointer(b))})
	return b.v.Swap(x)
}
func (b *AtomicInt64) CompareAndSwap(o, n int64) bool {
	point(&op{kind: "acas", enabled: alwaysEnabled, obj: uintptr(unsafe.Pointer(b))})
	return b.v.CompareAndSwap(o, n)
}

type AtomicInt32 struct{ v atomic.Int32 }

func (b *AtomicInt32) Load() int32 {
	point(&op{kind: "aload", enabled: alwaysEnabled, obj: uintptr(unsafe.Pointer(b))})
	return b.v.Load()
}
func (b *AtomicInt32) Store(x int32) {
	point(&op{kind: "astore", enabled: alwaysEnabled, obj: uintptr(unsafe.Pointer(b))})
	b.v.Store(x)
}
func (b *AtomicInt32) Add(x int32) int32 {
	point(&op{kind: "aadd", enabled: alwaysEnabled, obj: uintptr(unsafe.Pointer(b))})
	return b.v.Add(x)
}
func (b *AtomicInt32) Swap(x int32) int32 {
	point(&op{kind: "aswap", enabled: alwaysEnabled, obj: uintptr(unsafe.Pointer(b))})
	return b.v.Swap(x)
}
func (b *AtomicInt32) CompareAndSwap(o, n int32) bool {
	point(&op{kind: "acas", enabled: alwaysEnabled, obj: uintptr(unsafe.Pointer(b))})
	return b.v.CompareAndSwap(o, n)
}

type AtomicUint32 struct{ v atomic.Uint32 }

func (b *AtomicUint32) Load() uint32 {
	point(&op{kind: "aload", enabled: alwaysEnabled, obj: uintptr(unsafe.Pointer(b))})
	return b.v.Load()
}
func (b *AtomicUint32) Store(x uint32) {
	point(&op{kind: "astore", enabled: alwaysEnabled, obj: uintptr(unsafe.Pointer(b))})
	b.v.Store(x)
}
func (b *AtomicUint32) Add(x uint32) uint32 {
	point(&op{kind: "aadd", enabled: alwaysEnabled, obj: uintptr(unsafe.Pointer(b))})
	return b.v.Add(x)
}
func (b *AtomicUint32) Swap(x uint32) uint32 {
	point(&op{kind: "aswap", enabled: alwaysEnabled, obj: uintptr(unsafe.Pointer(b))})
	return b.v.Swap(x)
}
func (b *AtomicUint32) CompareAndSwap(o, n uint32) bool {
	point(&op{kind: "acas", enabled: alwaysEnabled, obj: uintptr(unsafe.Pointer(b))})
	return b.v.CompareAndSwap(o, n)
}

// AtomicPointer mirrors atomic.Pointer[T].
type AtomicPointer[T any] struct{ v atomic.Pointer[T] }

func (p *AtomicPointer[T]) Load() *T {
	point(&op{kind: "pload", enabled: alwaysEnabled, obj: uintptr(unsafe.Pointer(p))})
	return p.v.Load()
}
func (p *AtomicPointer[T]) Store(x *T) {
	point(&op{kind: "pstore", enabled: alwaysEnabled, obj: uintptr(unsafe.Pointer(p))})
	p.v.Store(x)
}
func (p *AtomicPointer[T]) Swap(x *T) *T {
	point(&op{kind: "pswap", enabled: alwaysEnabled, obj: uintptr(unsafe.Pointer(p))})
	return p.v.Swap(x)
}
func (p *AtomicPointer[T]) CompareAndSwap(o, n *T) bool {
	point(&op{kind: "pcas", enabled: alwaysEnabled, obj: uintptr(unsafe.Pointer(p))})
	return p.v.CompareAndSwap(o, n)
}

func SwapPointer(addr *unsafe.Pointer, n unsafe.Pointer) unsafe.Pointer {
	point(&op{kind: "pswap", enabled: alwaysEnabled, obj: uintptr(unsafe.Pointer(addr))})
	return atomic.SwapPointer(addr, n)
}

func CompareAndSwapUint64(addr *uint64, o, n uint64) bool {
	point(&op{kind: "acas", enabled: alwaysEnabled, obj: uintptr(unsafe.Pointer(addr))})
	return atomic.CompareAndSwapUint64(addr, o, n)
}

func (m *Mutex) TryLock() bool {
	if S == nil {
		return m.real.TryLock()
	}
	point(&op{kind: "trylock", enabled: alwaysEnabled, obj: uintptr(unsafe.Pointer(m))})
	if m.locked {
		return false
	}
	m.locked = true
	return true
}

// RWMutex: writers exclude everybody, readers exclude writers.
type RWMutex struct {
	real    sync.RWMutex
	writer  bool
	readers int
}

func (m *RWMutex) Lock() {
	if S == nil {
		m.real.Lock()
		return
	}
	point(&op{kind: "lock", enabled: func() bool { return !m.writer && m.readers == 0 }, obj: uintptr(unsafe.Pointer(m))})
	m.writer = true
}
func (m *RWMutex) Unlock() {
	if S == nil {
		m.real.Unlock()
		return
	}
	point(&op{kind: "unlock", enabled: alwaysEnabled, obj: uintptr(unsafe.Pointer(m))})
	m.writer = false
}
func (m *RWMutex) RLock() {
	if S == nil {
		m.real.RLock()
		return
	}
	point(&op{kind: "rlock", enabled: func() bool { return !m.writer }, obj: uintptr(unsafe.Pointer(m))})
	m.readers++
}
func (m *RWMutex) RUnlock() {
	if S == nil {
		m.real.RUnlock()
		return
	}
	point(&op{kind: "runlock", enabled: alwaysEnabled, obj: uintptr(unsafe.Pointer(m))})
	m.readers--
}

type WaitGroup struct {
	real sync.WaitGroup
	n    int
}

func (w *WaitGroup) Add(d int) {
	if S == nil {
		w.real.Add(d)
		return
	}
	point(&op{kind: "wg-add", enabled: alwaysEnabled, obj: uintptr(unsafe.Pointer(w))})
	w.n += d
	if w.n < 0 {
		panic("sync: negative WaitGroup counter")
	}
}
func (w *WaitGroup) Done() { w.Add(-1) }
func (w *WaitGroup) Wait() {
	if S == nil {
		w.real.Wait()
		return
	}
	point(&op{kind: "wg-wait", enabled: func() bool { return w.n == 0 }, obj: uintptr(unsafe.Pointer(w))})
}

type Once struct {
	real sync.Once
	m    Mutex
	done bool
}

func (o *Once) Do(f func()) {
	if S == nil {
		o.real.Do(f)
		return
	}
	o.m.Lock()
	defer o.m.Unlock()
	if !o.done {
		defer func() { o.done = true }()
		f()
	}
}

// Sleep: time passes, which other threads may use.
func Sleep(d time.Duration) {
	if S == nil {
		time.Sleep(d)
		return
	}
	point(&op{kind: "sleep", enabled: alwaysEnabled})
}

// After returns a channel that a timer thread sends on once it may fire.
func After(d time.Duration) <-chan time.Time {
	if S == nil {
		return time.After(d)
	}
	ch := make(chan time.Time, 1)
	AfterFunc(d, func() { ch <- Now() })
	return ch
}

// Pool: a deterministic stand-in for sync.Pool (last in, first out; never drops anything, which
// sync.Pool is allowed to do as well). Put/Get order the clocks like a mutex hand-over.
type Pool struct {
	New   func() any
	real  sync.Pool
	items []any
}

func (p *Pool) Get() any {
	if S == nil {
		p.real.New = p.New
		return p.real.Get()
	}
	point(&op{kind: "pool-get", enabled: alwaysEnabled, obj: uintptr(unsafe.Pointer(p))})
	if n := len(p.items); n > 0 {
		x := p.items[n-1]
		p.items = p.items[:n-1]
		return x
	}
	if p.New != nil {
		return p.New()
	}
	return nil
}

func (p *Pool) Put(x any) {
	if S == nil {
		p.real.Put(x)
		return
	}
	point(&op{kind: "pool-put", enabled: alwaysEnabled, obj: uintptr(unsafe.Pointer(p))})
	p.items = append(p.items, x)
}

// Map: sync.Map as a mutex-protected map (every method is one atomic step).
type Map struct {
	mu Mutex
	m  map[any]any
}

func (m *Map) Load(k any) (any, bool) {
	m.mu.Lock()
	defer m.mu.Unlock()
	v, ok := m.m[k]
	return v, ok
}

func (m *Map) Store(k, v any) {
	m.mu.Lock()
	defer m.mu.Unlock()
	if m.m == nil {
		m.m = map[any]any{}
	}
	m.m[k] = v
}

func (m *Map) LoadOrStore(k, v any) (any, bool) {
	m.mu.Lock()
	defer m.mu.Unlock()
	if old, ok := m.m[k]; ok {
		return old, true
	}
	if m.m == nil {
		m.m = map[any]any{}
	}
	m.m[k] = v
	return v, false
}

func (m *Map) Delete(k any) {
	m.mu.Lock()
	defer m.mu.Unlock()
	delete(m.m, k)
}

func (m *Map) Range(f func(k, v any) bool) {
	m.mu.Lock()
	type kv struct{ k, v any }
	var all []kv
	for k, v := range m.m {
		all = append(all, kv{k, v})
	}
	m.mu.Unlock()
	sort.Slice(all, func(i, j int) bool { return fmt.Sprint(all[i].k) < fmt.Sprint(all[j].k) })
	for _, e := range all {
		if !f(e.k, e.v) {
			return
		}
	}
}
