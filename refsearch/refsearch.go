// Package refsearch is the reference search model: plain negamax without pruning and a
// minimax-form quiescence with stand-pat, over the reference model's legal moves, draw events
// and score arithmetic. Leaf numbers come from the implementation's evaluator ("the same leaf
// evaluation") and the explored-move predicate from the implementation's Exploration ("the
// same explored moves"), both called on an implementation board walked in lock-step.
package refsearch

import (
	"context"
	"errors"
	"sync"

	"github.com/herohde/morlock/pkg/board"
	"github.com/herohde/morlock/pkg/search"
	"verif/bridge"
	"verif/ref"
)

var ErrBudget = errors.New("reference search exceeded its node budget")

// LeafKind says how depth-0 nodes are rated.
type LeafKind int

const (
	Static     LeafKind = iota // static evaluation
	Quiesce                    // quiescence over QExplore with stand-pat
	OneIfCheck                 // SARGON: one more full-width ply if in check, else static
)

type Config struct {
	Explore  search.Exploration // main-search move selection (nil = all moves)
	Leaf     LeafKind
	QExplore search.Exploration // quiescence move selection
	Eval     search.Evaluator   // static evaluator (implementation's)
	// QMemo, if set, memoises quiescence values below the top node by position. Only sound when
	// QExplore selects captures only and Eval is position-determined: below the top node every
	// move was a capture, so no repetition or fifty-move draw can be pending and the value is a
	// function of the position alone.
	QMemo *sync.Map
	// QPredPure: the predicate of QExplore looks at the move only (not at the board after it), so
	// moves it rejects need not be played to find that out.
	QPredPure bool
}

type Model struct {
	Cfg    Config
	B      *board.Board // implementation board in lock-step (history matters to the heuristics)
	G      *ref.Game
	Nodes  int64
	Budget int64
	sctx   *search.Context
}

func New(cfg Config, b *board.Board, g *ref.Game, budget int64) *Model {
	return &Model{Cfg: cfg, B: b, G: g, Budget: budget, sctx: &search.Context{TT: search.NoTranspositionTable{}}}
}

func (m *Model) tick() {
	m.Nodes++
	if m.Nodes > m.Budget {
		panic(ErrBudget)
	}
}

// Value returns the exhaustive minimax value of the current node at the given depth.
func (m *Model) Value(ctx context.Context, depth int) (v ref.Score, err error) {
	defer func() {
		if r := recover(); r != nil {
			if r == ErrBudget {
				err = ErrBudget
				return
			}
			panic(r)
		}
	}()
	return m.negamax(ctx, depth, true), nil
}

// Quiet returns the exhaustive quiescence value of the current node.
func (m *Model) Quiet(ctx context.Context) (v ref.Score, err error) {
	defer func() {
		if r := recover(); r != nil {
			if r == ErrBudget {
				err = ErrBudget
				return
			}
			panic(r)
		}
	}()
	return m.quiet(ctx, true), nil
}

func (m *Model) static(ctx context.Context) ref.Score {
	return ref.Heur(float32(m.Cfg.Eval.Evaluate(ctx, m.sctx, m.B)))
}

// push plays a reference move on both models; returns false if the implementation refuses it
// (a C01 matter; the line is then skipped).
func (m *Model) push(rm ref.Move) (board.Move, bool) {
	im, ok := bridge.FindImpl(m.B.Position(), m.B.Turn(), rm.String())
	if !ok || !m.B.PushMove(im) {
		return im, false
	}
	m.G.Push(rm)
	return im, true
}

func (m *Model) pop() {
	m.B.PopMove()
	m.G.Pop()
}

// drawn: a draw condition was met when this node was reached. The root counts as drawn if the
// board handed in says so.
func (m *Model) drawn(root bool) bool {
	if root {
		return m.B.Result().Outcome == board.Draw
	}
	return m.G.DrawNow()
}

func (m *Model) negamax(ctx context.Context, depth int, root bool) ref.Score {
	if m.drawn(root) {
		return ref.Zero
	}
	if depth == 0 {
		switch m.Cfg.Leaf {
		case Quiesce:
			return m.quiet(ctx, true)
		case OneIfCheck:
			if m.G.Cur().InCheck(m.G.Cur().White) {
				sub := &Model{Cfg: Config{Leaf: Static, Eval: m.Cfg.Eval}, B: m.B, G: m.G, Budget: m.Budget, Nodes: m.Nodes, sctx: m.sctx}
				v := sub.negamax(ctx, 1, true)
				m.Nodes = sub.Nodes
				return v
			}
			m.tick()
			return m.static(ctx)
		default:
			m.tick()
			return m.static(ctx)
		}
	}
	m.tick()
	// no selection configured: EVERY legal move is explored (the implementation's own notion of
	// "full exploration" is deliberately not consulted - it is part of what is being checked)
	pred := func(board.Move) bool { return true }
	if m.Cfg.Explore != nil {
		_, pred = m.Cfg.Explore(ctx, m.B)
	}
	legal := m.G.Cur().Legal()
	if len(legal) == 0 {
		if m.G.Cur().InCheck(m.G.Cur().White) {
			return ref.Lost
		}
		return ref.Zero
	}
	best := ref.Lost
	for _, rm := range legal {
		im, ok := m.push(rm)
		if !ok {
			continue
		}
		if pred(im) {
			v := m.negamax(ctx, depth-1, false).Inc().Neg()
			best = ref.MaxScore(best, v)
		}
		m.pop()
	}
	return best
}

// quiet: the side to move may stand pat on the static evaluation or play any explored move.
// The top call of a quiescence is made on a node the main search has already tested for a
// draw; deeper nodes are tested here.
func (m *Model) quiet(ctx context.Context, top bool) (best ref.Score) {
	if top && m.B.Result().Outcome == board.Draw {
		return ref.Zero
	}
	if !top && m.G.DrawNow() {
		return ref.Zero
	}
	if !top && m.Cfg.QMemo != nil {
		key := m.G.Cur().FEN(0, 1)
		if v, ok := m.Cfg.QMemo.Load(key); ok {
			return v.(ref.Score)
		}
		defer func() {
			if r := recover(); r != nil {
				panic(r) // unwinding on the node budget: nothing to remember
			}
			m.Cfg.QMemo.Store(key, best)
		}()
	}
	m.tick()
	best = m.static(ctx)
	_, pred := m.Cfg.QExplore(ctx, m.B)
	legal := m.G.Cur().Legal()
	if len(legal) == 0 {
		if m.G.Cur().InCheck(m.G.Cur().White) {
			return ref.Lost
		}
		return ref.Zero
	}
	for _, rm := range legal {
		if m.Cfg.QPredPure && !pred(bridge.Move(rm)) {
			continue
		}
		im, ok := m.push(rm)
		if !ok {
			continue
		}
		if pred(im) {
			v := m.quiet(ctx, false).Inc().Neg()
			best = ref.MaxScore(best, v)
		}
		m.pop()
	}
	return best
}

// ChildValue returns -inc(V(child, depth-1)) for the child reached by the given move text.
func (m *Model) ChildValue(ctx context.Context, text string, depth int) (v ref.Score, ok bool, err error) {
	rm, found := m.G.Cur().FindMove(text)
	if !found {
		return ref.Score{}, false, nil
	}
	defer func() {
		if r := recover(); r != nil {
			if r == ErrBudget {
				err = ErrBudget
				return
			}
			panic(r)
		}
	}()
	if _, pushed := m.push(rm); !pushed {
		return ref.Score{}, false, nil
	}
	v = m.negamax(ctx, depth-1, false).Inc().Neg()
	m.pop()
	return v, true, nil
}
