#!/bin/bash
# usage: tools/process_round.sh <worktree-prefix> <id> ...   e.g. tools/process_round.sh /tmp/s6_ C01 C02
# For each seed worktree: confirm it (tools/confirm_seed.sh) and run the quick check of its property against it.
cd "$(dirname "$0")/.." || exit 2
pre="$1"; shift
for id in "$@"; do
	wt="$pre$id"
	echo "=== $id"
	tools/confirm_seed.sh "$wt" 2>&1 | tail -4 | tr '\n' ';'; echo
	VERIF_REPO="$wt" ./run "$id" quick > build/round_$id.log 2>&1; code=$?
	tag=$(echo "$wt" | tr '/' '_')
	echo "exit=$code $(grep -c '^VIOLATION' build/round_$id.log) violations; $(head -1 build/round_$id.log | cut -c1-120)"
	grep -h '"sig"' build/alt$tag/replays/$id-quick-00[1-3].json 2>/dev/null | cut -c1-220
done
