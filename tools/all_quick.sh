#!/bin/bash
# Runs every registered quick check on /repo, then validates MANIFEST.json and the evidence files.
cd "$(dirname "$0")/.." || exit 2
rc=0
for c in $(python3 -c "import json;print(' '.join(x['property_id'] for x in json.load(open('MANIFEST.json'))['checks']))"); do
	./run $c quick > build/quick_$c.log 2>&1; code=$?
	printf "%s exit=%d %s\n" $c $code "$(head -1 build/quick_$c.log | cut -c1-150)"
	[ $code -ne 0 ] && rc=1
done
tools/validate.sh | tail -1
exit $rc
