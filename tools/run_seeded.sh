#!/bin/bash
# usage: tools/run_seeded.sh [<seeded-dir-name> ...]   (default: all)
# Applies each seeded change to /repo, runs the check of the property it breaks (quick tier),
# and undoes it straight afterwards. Prints DETECTED / MISSED per change.
cd "$(dirname "$0")/.." || exit 2
names=("$@"); [ ${#names[@]} -eq 0 ] && names=($(ls seeded))
rc=0
for n in "${names[@]}"; do
	d="seeded/$n"; prop=$(python3 -c "import json;print(json.load(open('$d/meta.json'))['breaks_property'])")
	if ! git -C /repo diff --quiet; then echo "/repo has uncommitted changes"; exit 2; fi
	if ! git -C /repo apply "$PWD/$d/patch.diff" 2>/dev/null; then echo "$n: PATCH DOES NOT APPLY"; rc=1; continue; fi
	VERIF_OUT="$PWD/build/seeded_out" ./run "$prop" quick > build/seeded_$n.log 2>&1; code=$?
	git -C /repo checkout -- .
	if [ $code -eq 1 ] && grep -q "^VIOLATION property=$prop" build/seeded_$n.log; then echo "$n: DETECTED by $prop quick ($(grep -c '^VIOLATION' build/seeded_$n.log) signatures)"; else echo "$n: MISSED (exit $code)"; rc=1; fi
done
exit $rc
