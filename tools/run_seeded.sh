#!/bin/bash
# usage: tools/run_seeded.sh [<seeded-dir-name> ...]   (default: all)
# Applies each seeded change, runs the check of the property it breaks (quick tier), and undoes
# it straight afterwards. Prints DETECTED / MISSED per change.
# Default: the change is applied to /repo itself (git apply / git checkout -- .), as a user of the
# registered commands would. SEEDED_WT=<dir>: a scratch worktree of /repo is created there and
# used instead (VERIF_REPO), so that /repo is never touched - for use while other runs read /repo.
cd "$(dirname "$0")/.." || exit 2
names=("$@"); [ ${#names[@]} -eq 0 ] && names=($(ls seeded))
rc=0
tree=/repo
if [ -n "$SEEDED_WT" ]; then
	git -C /repo worktree add --detach "$SEEDED_WT" HEAD > /dev/null 2>&1 || { echo "cannot create worktree $SEEDED_WT"; exit 2; }
	tree="$SEEDED_WT"
	export VERIF_REPO="$SEEDED_WT"
fi
for n in "${names[@]}"; do
	d="seeded/$n"; prop=$(python3 -c "import json;print(json.load(open('$d/meta.json'))['detected_by']['check'])")
	if ! git -C $tree diff --quiet; then echo "$tree has uncommitted changes"; exit 2; fi
	if ! git -C $tree apply "$PWD/$d/patch.diff" 2>/dev/null; then echo "$n: PATCH DOES NOT APPLY"; rc=1; continue; fi
	if [ -n "$SEEDED_WT" ]; then ./run "$prop" quick > build/seeded_$n.log 2>&1; code=$?
	else VERIF_OUT="$PWD/build/seeded_out" ./run "$prop" quick > build/seeded_$n.log 2>&1; code=$?; fi
	git -C $tree checkout -- .
	if [ $code -eq 1 ] && grep -q "^VIOLATION property=$prop" build/seeded_$n.log; then echo "$n: DETECTED by $prop quick ($(grep -c '^VIOLATION' build/seeded_$n.log) signatures)"; else echo "$n: MISSED (exit $code)"; rc=1; fi
done
if [ -n "$SEEDED_WT" ]; then
	git -C /repo worktree remove --force "$SEEDED_WT"; git -C /repo worktree prune
	rm -rf "build/alt$(echo "$SEEDED_WT" | tr '/' '_')"
fi
exit $rc
