#!/bin/bash
# validates MANIFEST.json and every evidence file against the schemas
python3-vt - <<'PY'
import json,jsonschema,glob,sys
jsonschema.validate(json.load(open('/verif/MANIFEST.json')), json.load(open('/root/.vp/MANIFEST.schema.json')))
print("MANIFEST ok")
es=json.load(open('/root/.vp/EVIDENCE.schema.json'))
for f in sorted(glob.glob('/verif/evidence/*.json')):
    jsonschema.validate(json.load(open(f)), es); print(f,'ok')
PY
