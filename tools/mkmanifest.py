#!/usr/bin/env python3
"""Generates /verif/MANIFEST.json from the table below (single source of truth for the interface)."""
import json, os
ROOT = os.path.dirname(os.path.dirname(os.path.abspath(__file__)))

E1 = "explicit-state enumeration of a bounded space on the real code, reference model in lock-step"
E2 = "stateless exploration of all schedules of the real goroutines within a deviation bound (AST-rewritten onto a controlled scheduler)"

# id -> (engine, category, technique, level text, level note, design ref)
CHECKS = {
 "C01": ("seq", "model_checking", "explicit-state BFS + exhaustive families vs reference move generator",
   "Every node of BFS closures from ~45 tagged seeds and of completely enumerated families (all K+X v K placements, castling under every single attacker, e.p. x king x slider, promotion fronts, collinear pins) has its legal-move set and move metadata compared with an independent mailbox move generator that is itself anchored to published perft counts; implementation perft is compared with the published counts too. At the engine's door (Engine.Move with text) every origin/destination pair of a legal move with every promotion suffix is accepted exactly when legal, and then leads to the reference successor (promotion, corner and en-passant families). The engine's door is also tried late in long games (every legal two-move line from roots with the half-move clock at 98..149).",
   "Trusts the reference generator (validated against published perft numbers in every run) and the bounds: BFS depth, family definitions.", "DESIGN.md §5 C01"),
 "C02": ("seq", "model_checking", "explicit-state BFS over (position, move) pairs vs reference successor",
   "Every (node, legal move) pair of the C01 spaces: successor placement/rights/e.p. equals the reference Make, all redundant views (square lookup, piece/colour/occupancy sets, rotated boards, attack queries for 2x64 squares) agree, FEN agrees, parent value untouched. Chains are covered because every BFS node was produced by the implementation's own Move. Six odd placements the decoder accepts although no game reaches them (several kings of one colour, none, a board full of queens) and every successor to depth 2 the implementation produces from them: all views must be self-consistent there too.",
   "Trusts the reference Make/attack ray walk; bounded by BFS depth and families.", "DESIGN.md §5 C02"),
}

CHECKS.update({
 "C06": ("seq", "model_checking", "complete enumeration of line occupancies vs ray walk; derived queries on BFS nodes",
   "The table half of the property is decided completely: every occupancy subset of every line through every square (own square empty and occupied, off-line cross-talk squares added) goes through the public attack-board functions and is compared with a ray walk. The derived queries are compared with their geometric definitions on every node of the BFS closures, the pin/castling/back-rank families and a two-queens family (286 000 positions with two queens of one colour: several targets for one pin query).",
   "Queen: the two halves are enumerated completely and jointly for the 12 nearest squares (QueenAttackboard is the union of the two look-ups); derived queries are bounded by the BFS depth.", "DESIGN.md §5 C06"),
 "C07": ("seq", "model_checking", "explicit-state BFS + all push/pop histories; complete key-table probe",
   "For 5 table seeds: incremental == from-scratch hash on every (node, move) of the BFS closures and families and after every push and every pop of all push sequences to depth n on game boards; the position->hash map over everything visited is a function and injective; every key of the table (read through Hash) is non-zero and pairwise distinct, so no single-component difference can cancel. The key-table probe is swept over ~450 special seeds (powers of two, extremes, well-known mixing constants with negations and complements).",
   "Bounded by BFS depth / history length; 2^-64 coincidences ignored as the property allows.", "DESIGN.md §5 C07"),
 "C09": ("seq", "model_checking", "complete enumeration of pairs and triples over a score alphabet closed under the score operations; all 2^32 floats for unary laws",
   "All pairs and triples over won, lost, every mate distance an int8 can hold and ~40 boundary floats - the set closed breadth-first under the score-producing operations Negate / IncrementMateDistance / DecrementMateDistance, values kept apart structurally - are checked against a rank-tuple model: agreement with the stated order, trichotomy, transitivity, negation involutive and order-reversing, one more ply order-preserving, Max/Min. Thorough also walks every non-NaN float32 payload through the unary and neighbour laws. The heuristic alphabet includes round numbers and integer widths (127 .. 10^6) with mate distances added and subtracted.",
   "NaN and the Invalid score are not constructible scores. The int8 wrap-around at |k|=127/128 is a recorded known finding.", "DESIGN.md §5 C09"),
})

CHECKS.update({
 "C05": ("seq", "model_checking", "exhaustive enumeration of push sequences on real game boards vs reference game",
   "All push sequences to depth n (17+ on confined fortresses, so five-fold repetition is reached; shuffles on the start position and on castling-rights roots; roots set up with clock 93..100; every placement of two bishops around a capture; K+minor / K+P material roots), also with the tail played on a Fork() taken at every depth and with a fresh board per path, each node compared with a reference game that counts occurrences over the whole game, keeps the FIDE clock and applies the insufficient-material rule as C05 words it; mate and stalemate nets in games that already carry a draw event (unclaimed repetition, clock 100 reached by the mating move) must still be adjudicated mate / stalemate. The repetition walks run once more on boards whose Zobrist table maps every position to 0 (a draw is a statement about positions, never about hashes); reason names are judged by their text.",
   "Bounded by history length and move alphabets (stated in the evidence rule); the reference game is ~100 lines of linear scans.", "DESIGN.md §5 C05"),
})

CHECKS.update({
 "C08": ("seq", "model_checking", "exhaustive enumeration of operation words {push,pop,fork,switch} on real boards vs multi-board model",
   "Every word of <= 8 (thorough 10) operations over push (root alphabets with castling, e.p., promotions, captures, shuffles), pop (never below a fork point), fork (<= 3 live boards) and switch is replayed on fresh real boards; after the last operation every live board's getters are compared with a reference multi-board model, the hash with the scratch hash, and after a push the C05 draw oracle runs on that board, so repetition against the common past is checked on both sides of a fork. The boards an engine hands out (Engine.Board) on seven games incl. drawn ones are independent of its game in both directions. A long-lived board: after a complete 4-ply walk (200 000 pushes from the start position, 4 million from a middlegame root) everything reported is unchanged and the game goes on into a repetition that must be seen; roots set up with full-move number 0 and with a degenerate hash table.",
   "Bounded by word length, alphabets and 3 live boards. Taking back below a fork point is excluded as the property says.", "DESIGN.md §5 C08"),
 "C14": ("seq", "model_checking", "explicit-state BFS x clock grid for the codec; exhaustive Move/TakeBack histories through the engine",
   "Every BFS node and family position x 7x7 clock values x both sides round-trips through Decode/Encode in both directions (string and value identity), and the FEN the engine reports is compared with the reference game's FEN after every Move and TakeBack of all histories to depth n from roots with castling, e.p., promotions and carried-in clocks, and for the engine set up on 4 positions x both sides x 10 half-move clocks x 7 full-move numbers (reports what it was given, the standard FEN after one move, the given FEN after the take-back). Sequences of moves and take-backs are also observed sparsely (the FEN asked for only once before and once after); clocks around every integer width.",
   "Bounded by BFS depth, clock grid and history depth.", "DESIGN.md §5 C14"),
 "C19": ("seq", "model_checking", "bounded-exhaustive enumeration of input strings (symbol words, token words with run-length macros, all 1-2 edits) and of all move strings per position",
   "All strings of <= 5 symbols into the move/square parsers, all FEN board fields that are words of <= 5 (6) tokens including run-length macro tokens that overflow a byte-sized square cursor, valid boards crossed with field alphabets, every single (double) edit of 10 valid FENs, and all 28 672 coordinate strings per position through Engine.Move for ~500 positions: no panic, error or well-formed round-tripping value, accepted iff reference-legal, state snapshot unchanged on rejection (positions one move from a seed are set up by playing that move, so there is a history to lose); Reset with ~1500 undecodable FENs on engines that have a game leaves the game as it was. Both FEN counters run over the boundaries of every integer width (a counter written as a plain decimal number is that number); late in a game (2..5 rounds of a shuffle) every legal move is still accepted.",
   "Bounded alphabets and lengths; arbitrary bytes beyond the alphabets are represented by NUL, a 2-byte and an Arabic-digit rune.", "DESIGN.md §5 C19"),
 "C20": ("seq", "model_checking", "exhaustive push-sequence walks with history + all K+X v K placements vs mirrored twin game and reference rules",
   "Every node with its history: evaluations finite, colour-blind evaluations equal on a twin board built by playing the mirrored history from the mirrored start, plausible moves legal/unique/within limit/non-empty, no-under-promotion filter exact, considerable-move predicate equal to its four rules read on the reference model, and every entry of both opening books legal; through the public face: whatever Find returns on any position within 4-5 plies of the start, on the same placements with the other side to move, and (generic NewBook with e.p. lines) on every position reachable by any move order incl. single pawn steps, is legal there. Families added for the evaluations: mobility extremes (a queen / rook / bishop on every square, every subset of its rays ending in a capture), the en-passant family, positions whose only legal move is an en-passant capture; the main-search filters are consulted with a cancelled context too.",
   "Bounded by walk depth (2-3 plies of history from ~50 seeds, deeper on fortresses).", "DESIGN.md §5 C20"),
})

CHECKS.update({
 "C03": ("seq", "model_checking", "exhaustive enumeration of (root, depth, configuration) cases vs unpruned reference negamax/quiescence",
   "Full-window alpha-beta in 7 configurations (static leaf, captures-only quiescence, TUROCHAMP, SARGON, BERNSTEIN at three branch limits) is compared at every depth 0..D on a corpus of mate nets, endgames, tactical fragments and roots whose history makes draws occur inside the tree with an unpruned reference search that uses the reference rules, draw events and score order; the PV must be legal, within depth, non-empty when it must be, its first move must attain the value, and the board must come back unchanged. The draw roots come with equal and with unequal material; five capture-rich middlegames at depth <= 2-3 for the static configurations; searches limited to a variation (Context.Ponder = every legal first move) must return minus the reference value of that move's child. Games with a history are searched again on boards whose hash table maps every position to 0, and with a transposition table that an earlier search of an earlier position of the same game has filled (a position drawn by the history counts as zero even when the table knows it).",
   "The reference search calls the implementation's evaluator and exploration predicate (that is what 'same leaf evaluation / same explored moves' means); bounded by corpus and depth; reference node budget reported if hit.", "DESIGN.md §5 C03"),
 "C11": ("seq", "model_checking", "exhaustive enumeration of search sequences sharing one table (incl. every move and reply between two iterative deepenings); every exact store and every exact entry held validated against the reference value",
   "For 17 roots x 2 position-determined configurations x 5 table sizes x 4 kinds of search sequence (iterative deepening, repeats, successive positions of a game, iterative deepening at successive positions) plus, for the low-branching roots, iterative deepening / EVERY move and EVERY reply / iterative deepening again: every search must return the table-less score and a PV starting with a best move, and every ExactBound store - mapped back to its position through the Exploration/QuietSearch seams - as well as every exact entry the table serves afterwards (swept by Read) must equal the value of that position at that depth. The same through the wrapper NewMinDepthTranspositionTable, with SARGON's nested-search plumbing over a material leaf, through the iterative-deepening driver (2270 positions analysed three times on one table, first move of every report valued) and through the engine (games played with and without a table, also as a new game right after a game on the same placement one or two half-moves from the fifty-move draw).",
   "Reference values are exhaustive minimax on fresh games, valid because the corpus excludes trees with repetition/fifty-move draws (as the property does); on the five capture-rich middlegame roots exhaustive minimax is out of reach and the value is what the search itself returns without a table.", "DESIGN.md §5 C11"),
 "C12": ("seq+mc", "fault_enumeration", "fault enumeration: the search is cancelled at every one of its N cancellation polls; plus stateless exploration of running searches halted by one or two callers at any instant",
   "Every cancellation point of every case (alpha-beta with static leaf or quiescence on an empty or warmed table, Minimax, SARGON's nested search) is exercised: the search must report ErrHalted, return the board unchanged, leave only true exact entries in the table, and follow-up searches on the same table must return what they return on a table that never saw the halted search. Interleaving half: real Iterative.Launch goroutines with a table, a halter thread and (with a time control) the hard-limit timer as lazy or grid-released threads; at the moment a caller's Halt returns the board has its initial ply and hash and the wrapped table is never read or written again. Engine level: a first analysis ended by Halt / Move / TakeBack / Reset on five roots (incl. mated, stalemated, claimable draw); the next analysis must start and equal a fresh engine's. A family of pawn endings at depth 2 with quiescence covers halts that land inside the quiescence search of a node's last and best move.",
   "Cancellation is observed only where the search polls its context; the poll count N is measured per case on the current tree.", "DESIGN.md §5 C12"),
 "C13": ("seq", "model_checking", "exhaustive enumeration of all windows over a score alphabet vs reference value",
   "For every case of the search corpus (alpha-beta in 5 configurations at depth 0..D; the two quiescence searches called directly at every root and one ply below) ALL windows a<b over {lost, mated 1..7, the leaf values of the tree with their 1-ulp neighbours, mate 7..1, won} are searched and the result is checked against the clipping contract with the reference value, the stand-pat floor and exact rating of move-less positions. Capture ladders provide one forced line of captures of every length up to ten plies.",
   "Bounded by corpus, depth and the window alphabet (thinned to <= 10 leaf values per tree).", "DESIGN.md §5 C13"),
})

CHECKS.update({
 "C04": ("mc", "model_checking", "stateless exploration of all schedules within a deviation bound x enumerated stop/timer instants, real goroutines on a controlled scheduler",
   "The real driver, engine and iterative-deepening search of every bundled engine (construction lifted from cmd/*/main.go at check time) run on the controlled scheduler; engine x option x set-up x go-variant scenarios are crossed with every release instant of `stop` and of the timers on a grid over the whole run and, separately, with `stop` and the timers as lazy threads (any scheduling point, one deviation each); every schedule within the deviation bound is executed to completion: every go gets exactly one bestmove, legal in the position last set up, 0000 only without legal moves. Conformance of that model with the shipped engines: the real binaries built from the tree under test and the lifted engines run the same 14 UCI sessions x 5 engine configurations and must print the same lines (info lines aside), answer every go once and exit with status 0 on quit and on end of input.",
   "Searches are tiny (K v K, fortress roots; depth <= 2) because every cancellation poll is a scheduling point; timers are arbitrary delays; weak-memory effects are not modelled; plain accesses of the driver packages are clock-checked and racing sites, if any, become scheduling points and the scenarios that showed them are explored again race-directed with two more deviations (none on this tree).", "DESIGN.md §3, §5 C04"),
 "C15": ("mc", "model_checking", "stateless exploration of all schedules within a deviation bound x enumerated halt instants; complete grid for the time-control limits",
   "searchctl.Iterative runs on the controlled scheduler with a consumer, a halter released at every step of a grid over the run, a consumer that halts on seeing depth D next to the hard-limit timer (grid and lazy), the hard-limit timer and environment answers for time.Since; every schedule within the bound is checked against direct fixed-depth searches (faithful, increasing, ends exactly when it must, Halt guarantees). TimeControl.Limits is enumerated over a complete grid; a free-running engine analyses a three-move root under a grid of time controls incl. clocks of zero and below, a two-minute watchdog turning a hang into a finding; scenarios whose table an earlier analysis of the same root has filled.",
   "Small roots only; the 'reported before the halt was requested' clause is evaluated on what the consumer had received; plain accesses of searchctl are clock-checked and racing sites, if any, become scheduling points and the scenarios that showed them are explored again race-directed with two more deviations (none on this tree).", "DESIGN.md §5 C15"),
 "C16": ("mc", "model_checking", "stateless exploration of all schedules within a deviation bound x enumerated injection instants, real goroutines on a controlled scheduler",
   "GUI scripts `position; go X; <interrupting word>; isready; quit|EOF` over a 10-command alphabet (words of length <= 2) run against the real driver with the interrupting command released at every step of a grid over the uninterrupted run and, separately, as a lazy thread (any scheduling point for one deviation); every schedule within the deviation bound is executed and its event log checked: no panic, no deadlock, isready answered, no stale/duplicate/unsolicited bestmove (an answer for a go that had surely been superseded is one), clean shutdown. Also scripts without any position command, and scripts with the driver's buffered channels scaled down to two slots and a GUI that stops reading the output for a while (back-pressure must not become a deadlock). Checkmated and stalemated roots (the answer is the null move, the variation empty) are driven through the same interrupting words.",
   "K v K roots with the two colours to move so that a bestmove identifies its search; horizon-cut executions are inconclusive and counted; plain accesses of the driver packages are clock-checked and racing sites, if any, become scheduling points and the scenarios that showed them are explored again race-directed with two more deviations (none on this tree).", "DESIGN.md §5 C16"),
 "C17": ("mc", "model_checking", "stateless exploration of ALL interleavings of small table harnesses (no bound) with a brute-force linearizability check and vector-clock data-race detection over rewritten plain accesses",
   "2-3 threads x 1-3 operations on colliding keys of 1-4-slot tables; every interleaving of the atomic steps (pointer load/CAS, counter update) is executed and checked: no two plain accesses to the same byte, one a store, left unordered by the happens-before relation of that interleaving (every field/element access of transposition.go is wrapped by the rewriter; vector clocks); hits return one single store's tuple, history linearizable w.r.t. the sequential table including the replacement rule, fill fraction exact at quiescence and within [0,1]. Further harnesses: stores of one key that differ only in the score, or only in the ply; a contended slot with an adversary thread whose ten stores happen all at once at instants the explorer chooses (every retry of a compare-and-swap loop can be made to fail).",
   "Sequentially consistent atomics (no weak-memory reordering beyond what a data race admits: races are decided per interleaving by the clocks; the free-running -race pass only cross-checks the shim).", "DESIGN.md §5 C17"),
})

CHECKS.update({
 "C10": ("seq", "model_checking", "exhaustive enumeration of command words over a line alphabet on a real driver vs reference game and fresh-driver differential",
   "Every word of < 4 (5) position/ucinewgame lines over a 27-line alphabet (and of that length with a last line from a 14-line core) of extending, repeating, shortening and prefix-colliding commands - incl. lines that play on after a claimable draw, FENs differing only in letter case or clocks, a white-space variant and promotion move lists - is fed to a real uci.Driver (isready/readyok hand-shake); the engine's position, counters, draw state and full board snapshot must equal those of the reference game of the last command alone and of a fresh driver given only that command, and continuations on a fork must report draws exactly where the reference game does.",
   "Bounded by word length and alphabet (three games); the alphabet validates its own lines at start.", "DESIGN.md §5 C10"),
 "C18": ("seq", "model_checking", "exhaustive case grids (sequential half) + stateless exploration with function-entry scheduling points (concurrent half)",
   "Sequential: every (root, depth, configuration) twice / after other searches on the same Search value / under five hash seeds and under the zero-value Zobrist table that maps every position to 0 / with noise from one seed must give identical (score, PV, nodes); engine operation words leave the engine's game untouched across analyze/halt; engine words over the noise and depth options (analyses with and without a depth of their own): analyses reproducible from the seed and, with noise off, equal to those of a fresh never-noisy engine with another hash seed for that game and depth. Concurrent: a build with a scheduling point at the entry of every non-trivial function of board/search/eval and the historical engines explores every schedule within the bound of two engines searching side by side (also sharing one Search value) and of a noisy analysis started right after halting another one, with a halt-instant grid and each engine goroutine in turn held back (slow-thread dimension); and of each historical engine alone on castling- and capture-rich roots with the iteration order of every `for range` over a map as an explored environment choice.",
   "Concurrent half: K v K roots, depth 1-2; interleavings inside math/rand and other non-morlock code are not explored.", "DESIGN.md §5 C18"),
})

NOT_YET = {}

def main():
    props = [json.loads(l) for l in open(os.path.join(ROOT, "properties.jsonl"))]
    checks, na = [], []
    for p in props:
        pid = p["id"]
        if pid in CHECKS:
            eng, cat, tech, text, note, ref = CHECKS[pid]
            if pid == "C18":
                eng = "seq+mcy"
            if pid == "C12":
                eng = "seq+mcy"
            checks.append({
                "property_id": pid,
                "quick_cmd": f"./run {pid} quick",
                "thorough_cmd": f"./run {pid} thorough",
                "evidence_file": f"evidence/{pid}.json",
                "replay_cmd_template": "./run replay {path}",
                "engine": {"seq": "statespace", "mc": "gosched", "seq+mcy": "statespace+gosched"}[eng],
                "level_claimed": {"category": cat, "text": text, "design_ref": ref},
                "level_note": note,
                "technique": tech,
            })
        else:
            na.append({"property_id": pid, "reason": NOT_YET.get(pid, "check not built yet in this round (planned: model checking per DESIGN.md §5); not claimed until it runs green")})
    m = {
        "version": 1,
        "setup_cmd": "./run setup",
        "hooks": {
            "guard": "verif",
            "enable": "no in-repo hooks: concurrency primitives are redirected to the controlled scheduler by an AST rewrite of /repo's working tree applied with `go build -overlay` (build/overlay), /repo itself is never modified",
            "baseline_off_cmd": "cd /repo && go build ./... && go test -vet=off -count=1 ./...",
            "source_commits": [],
            "add_only": True,
        },
        "engines": [
            {"name": "statespace", "path": "seq/", "serves_properties": [k for k, v in CHECKS.items() if v[0] == "seq"], "kind_free_text": E1},
            {"name": "gosched", "path": "vs/ rewrite/ mc/", "serves_properties": [k for k, v in CHECKS.items() if v[0] == "mc"], "kind_free_text": E2},
        ],
        "checks": checks,
        "not_applicable": na,
        "notes": "All checks rebuild from /repo's working tree (module replace => /repo). Exit 0 held / known findings only; exit 1 + VIOLATION line; exit 2 harness error. Known findings: known_findings.txt.",
    }
    json.dump(m, open(os.path.join(ROOT, "MANIFEST.json"), "w"), indent=1)
    print("wrote MANIFEST.json:", len(checks), "checks,", len(na), "not claimed")

main()
