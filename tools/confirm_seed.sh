#!/bin/bash
# usage: tools/confirm_seed.sh <worktree> : confirms a seeded change (builds, existing tests pass,
# demo fails with / passes without the change). Prints a one-line verdict per step.
wt="$1"
export GOFLAGS=-mod=mod GOPROXY=off GOSUMDB=off GOTOOLCHAIN=local
cd "$wt" || exit 2
git diff --quiet -- . ':!seed' && { echo "NO CHANGE APPLIED"; exit 1; }
go build ./... && echo "build: ok" || { echo "build: FAIL"; exit 1; }
if go test -count=1 $(go list ./... | grep -v /seed) > /tmp/confirm_$$.log 2>&1; then echo "existing tests with change: pass"; else echo "existing tests with change: FAIL"; tail -5 /tmp/confirm_$$.log; fi
if go test -count=1 ./seed/ > /tmp/confirm_$$.log 2>&1; then echo "demo with change: PASSES (bad)"; else echo "demo with change: fails (good)"; fi
git apply -R seed/patch.diff || { echo "cannot revert"; exit 1; }
if go test -count=1 ./seed/ > /tmp/confirm_$$.log 2>&1; then echo "demo without change: passes (good)"; else echo "demo without change: FAILS (bad)"; tail -5 /tmp/confirm_$$.log; fi
git apply seed/patch.diff
rm -f /tmp/confirm_$$.log
