#!/usr/bin/env python3
"""usage: keep_seed.py <seed-id> <worktree> <property> <check-tier> <needs> <what-the-check-reported>
Copies a confirmed seeded change into /verif/seeded/<seed-id>/ with its meta.json."""
import json, os, shutil, subprocess, sys
sid, wt, prop, tier, needs, reported = sys.argv[1:7]
dst = f"/verif/seeded/{sid}"
os.makedirs(dst, exist_ok=True)
for f in os.listdir(f"{wt}/seed"):
    if os.path.isdir(f"{wt}/seed/{f}"):
        continue  # tooling a sub-agent left behind: the change, its demonstration and README are plain files
    shutil.copy(f"{wt}/seed/{f}", f"{dst}/{f}")
base = subprocess.run(["git", "-C", wt, "rev-parse", "--short", "HEAD"], capture_output=True, text=True).stdout.strip()
files = subprocess.run(["git", "-C", wt, "diff", "--name-only", "--", ".", ":!seed"], capture_output=True, text=True).stdout.split()
meta = {
    "id": sid,
    "breaks_property": prop,
    "source": "written by an independent sub-agent that saw only the property text and a scratch worktree of /repo",
    "base_commit": base,
    "files_changed": files,
    "needs_to_manifest": needs,
    "confirmed": {
        "how": "tools/confirm_seed.sh <worktree>: go build ./... ok; go test (all packages except ./seed) passes with the change; go test ./seed fails with the change and passes after `git apply -R seed/patch.diff`",
        "result": "build ok / existing tests pass / demo fails with, passes without",
    },
    "detected_by": {"check": prop, "tier": tier, "command": f"VERIF_REPO=<worktree> ./run {prop} {tier}", "reported": reported},
    "apply": "git -C /repo apply /verif/seeded/%s/patch.diff  (undo: git -C /repo checkout -- .)" % sid,
}
json.dump(meta, open(f"{dst}/meta.json", "w"), indent=1)
print("kept", dst)
