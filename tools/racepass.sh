#!/bin/bash
# Supplementary free-running -race pass over the E2 harness bodies (C17 table harnesses, C16
# driver scripts). Under the cooperative scheduler every hand-off is a happens-before edge, so
# the race detector is blind there; here the same bodies run on real goroutines.
# Exit 0: no race reported; 66: the race detector reported a race.
cd "$(dirname "$0")/.." || exit 2
export GOFLAGS=-mod=mod GOPROXY=off GOSUMDB=off GOTOOLCHAIN=local
mkdir -p build/overlay_r
go build -o build/rewrite ./rewrite || exit 2
./build/rewrite -out build/overlay_r -root "$PWD" -repo /repo > build/rewrite_r.log 2>&1 || { cat build/rewrite_r.log; exit 2; }
go build -race -overlay build/overlay_r/overlay.json -o build/verif-mc-race ./cmd/verif-mc || exit 2
rc=0
GORACE="exitcode=66 halt_on_error=0" ./build/verif-mc-race race C17 "${1:-300}" || rc=$?
GORACE="exitcode=66 halt_on_error=0" ./build/verif-mc-race race C16 "${2:-1}" || rc=$?
exit $rc
