// verif-mc runs the interleaving (E2) checks; it must be built with the overlay produced by
// the rewriter so that morlock's goroutines run on the controlled scheduler.
package main

import (
	"encoding/json"
	"fmt"
	"os"
	"strconv"

	"verif/mc"
)

func main() {
	if len(os.Args) < 2 {
		fmt.Fprintln(os.Stderr, "usage: verif-mc <id> [quick|thorough] | replay <file> | worker <id> <tier> <i> <n>")
		os.Exit(2)
	}
	switch os.Args[1] {
	case "replay":
		mc.Replay(os.Args[2])
	case "race":
		reps := 20
		if len(os.Args) > 3 {
			reps, _ = strconv.Atoi(os.Args[3])
		}
		mc.Race(os.Args[2], reps)
	case "debug": // debug <id> <tier> <bound> <substr>...: explore the scenarios whose spec contains every substring
		b, _ := strconv.Atoi(os.Args[4])
		mc.Debug(os.Args[2], os.Args[3], b, os.Args[5:])
	case "setup": // setup <id>: only the sequential part of a check (grids, conformance sessions)
		mc.SetupOnly(os.Args[2])
	case "count":
		scs := mc.Defs[os.Args[2]].Gen(os.Args[3])
		fmt.Println(len(scs))
		if len(os.Args) > 4 { // count <id> <tier> <json-field>: scenarios per value of a field of the spec
			by := map[string]int{}
			for _, sc := range scs {
				var m map[string]any
				_ = json.Unmarshal(sc.Spec.Params, &m)
				by[fmt.Sprint(m[os.Args[4]])]++
			}
			for k, v := range by {
				fmt.Println(v, k)
			}
		}
	case "worker":
		i, _ := strconv.Atoi(os.Args[4])
		n, _ := strconv.Atoi(os.Args[5])
		mc.Worker(os.Args[2], os.Args[3], i, n)
	default:
		tier := "quick"
		if len(os.Args) > 2 {
			tier = os.Args[2]
		}
		mc.Main(os.Args[1], tier)
	}
}
