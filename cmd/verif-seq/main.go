// verif-seq runs the explicit-state (E1) checks against the plain /repo build.
package main

import (
	"encoding/json"
	"fmt"
	"os"

	"verif/harness"
	"verif/seq"
)

func main() {
	if len(os.Args) < 2 {
		fmt.Fprintln(os.Stderr, "usage: verif-seq <id> [quick|thorough] | replay <file>")
		os.Exit(2)
	}
	if os.Args[1] == "replay" {
		r, err := harness.LoadReplay(os.Args[2])
		if err != nil {
			fmt.Fprintln(os.Stderr, "HARNESS-ERROR:", err)
			os.Exit(2)
		}
		if r.Kind == "panic" {
			// the code under test crashed inside the check: replaying is running that check again
			var d struct{ Check, Tier string }
			_ = json.Unmarshal(r.Data, &d)
			if fn, ok := seq.Checks[d.Check]; ok {
				os.Setenv("VERIF_OUT", os.TempDir())
				fn(harness.New(d.Check, d.Tier, "seq"))
				return
			}
		}
		fn, ok := seq.Replayers[r.Kind]
		if !ok {
			fmt.Fprintln(os.Stderr, "HARNESS-ERROR: no replayer for kind", r.Kind)
			os.Exit(2)
		}
		bad, msg := fn(r.Data)
		if bad {
			fmt.Printf("VIOLATION property=%s replay=%s\n    %s\n", r.Property, os.Args[2], msg)
			os.Exit(1)
		}
		fmt.Println("replay: property holds on this input:", msg)
		return
	}
	tier := "quick"
	if len(os.Args) > 2 {
		tier = os.Args[2]
	}
	fn, ok := seq.Checks[os.Args[1]]
	if !ok {
		fmt.Fprintln(os.Stderr, "HARNESS-ERROR: unknown check", os.Args[1])
		os.Exit(2)
	}
	fn(harness.New(os.Args[1], tier, "seq"))
}
