// verif-seq runs the explicit-state (E1) checks against the plain /repo build.
package main

import (
	"encoding/json"
	"fmt"
	"io"
	"os"
	"os/exec"
	"strings"

	"verif/harness"
	"verif/seq"
)

func main() {
	if len(os.Args) < 2 {
		fmt.Fprintln(os.Stderr, "usage: verif-seq <id> [quick|thorough] | replay <file>")
		os.Exit(2)
	}
	if os.Args[1] == "replay" {
		r, err := harness.LoadReplay(os.Args[2])
		if err != nil {
			fmt.Fprintln(os.Stderr, "HARNESS-ERROR:", err)
			os.Exit(2)
		}
		if r.Kind == "panic" {
			// the code under test crashed inside the check: replaying is running that check again
			var d struct{ Check, Tier string }
			_ = json.Unmarshal(r.Data, &d)
			if _, ok := seq.Checks[d.Check]; ok {
				os.Setenv("VERIF_OUT", os.TempDir())
				supervise(d.Check, d.Tier)
				return
			}
		}
		fn, ok := seq.Replayers[r.Kind]
		if !ok {
			// a finding of a part of a check that has no input of its own to replay (grids, probes,
			// constructor laws): replaying is running that check again
			if _, isCheck := seq.Checks[r.Property]; isCheck {
				os.Setenv("VERIF_OUT", os.TempDir())
				supervise(r.Property, "quick")
				return
			}
			fmt.Fprintln(os.Stderr, "HARNESS-ERROR: no replayer for kind", r.Kind)
			os.Exit(2)
		}
		bad, msg := fn(r.Data)
		if bad {
			fmt.Printf("VIOLATION property=%s replay=%s\n    %s\n", r.Property, os.Args[2], msg)
			os.Exit(1)
		}
		fmt.Println("replay: property holds on this input:", msg)
		return
	}
	tier := "quick"
	if len(os.Args) > 2 {
		tier = os.Args[2]
	}
	fn, ok := seq.Checks[os.Args[1]]
	if !ok {
		fmt.Fprintln(os.Stderr, "HARNESS-ERROR: unknown check", os.Args[1])
		os.Exit(2)
	}
	if os.Getenv("VERIF_CHILD") == "" && os.Getenv("VERIF_NOSUPERVISE") == "" {
		supervise(os.Args[1], tier)
		return
	}
	fn(harness.New(os.Args[1], tier, "seq"))
}

// supervise runs the check in a child process. A panic the check can recover is a finding already
// (harness.Guard); one it cannot - in a goroutine the code under test started itself, or a fatal
// runtime error such as concurrent map writes - kills the child. That death is then reported as
// a violation (the code under test crashed on the inputs of the check) instead of leaving a
// broken check behind. Explicit HARNESS-ERROR exits stay what they are.
func supervise(id, tier string) {
	cmd := exec.Command(os.Args[0], id, tier)
	cmd.Env = append(os.Environ(), "VERIF_CHILD=1")
	cmd.Stdout = os.Stdout
	var tail tailBuffer
	cmd.Stderr = io.MultiWriter(os.Stderr, &tail)
	err := cmd.Run()
	if err == nil {
		return
	}
	code := 2
	if ee, ok := err.(*exec.ExitError); ok {
		code = ee.ExitCode()
	}
	text := tail.String()
	crashed := strings.Contains(text, "\npanic: ") || strings.HasPrefix(text, "panic: ") || strings.Contains(text, "fatal error: ") || strings.Contains(text, "[signal SIG")
	if code == 1 || strings.Contains(text, "HARNESS-ERROR") || !crashed || !strings.Contains(text, "github.com/herohde/morlock/") {
		os.Exit(code)
	}
	c := harness.New(id, tier, "seq")
	c.Exhaustive = false
	first := text
	if i := strings.Index(text, "panic: "); i >= 0 {
		first = text[i:]
	} else if i := strings.Index(text, "fatal error: "); i >= 0 {
		first = text[i:]
	}
	line := first
	if i := strings.Index(line, "\n"); i >= 0 {
		line = line[:i]
	}
	where := "?"
	for _, l := range strings.Split(first, "\n") {
		if strings.HasPrefix(l, "github.com/herohde/morlock/") {
			where = strings.TrimPrefix(l, "github.com/herohde/morlock/")
			if i := strings.LastIndex(where, "("); i > 0 {
				where = where[:i]
			}
			break
		}
	}
	if len(first) > 3000 {
		first = first[:3000]
	}
	c.Note("the check process died; what it had covered up to then is not recorded")
	c.Violation(fmt.Sprintf("%s/crash in %s: %s", id, where, line), "the code under test crashed the checking process (a panic in a goroutine it started itself, or a fatal runtime error):\n"+first, "panic", map[string]string{"check": id, "tier": tier})
	c.Finish()
}

type tailBuffer struct{ b []byte }

func (t *tailBuffer) Write(p []byte) (int, error) {
	t.b = append(t.b, p...)
	if len(t.b) > 1<<16 {
		t.b = t.b[len(t.b)-1<<15:]
	}
	return len(p), nil
}
func (t *tailBuffer) String() string { return string(t.b) }
