package ref

// Score is the reference model of a search score: a rank tuple whose lexicographic order is the
// order C09 words: lost < mated sooner < mated later < heuristic (numeric) < mating later <
// mating sooner < won.
type Score struct {
	Class int     // 0 lost, 1 being mated, 2 heuristic, 3 mating, 4 won
	K     int     // plies to mate for classes 1 and 3 (positive)
	H     float32 // heuristic value for class 2
}

var (
	Lost = Score{Class: 0}
	Won  = Score{Class: 4}
	Zero = Score{Class: 2}
)

func Heur(h float32) Score { return Score{Class: 2, H: h} }

// Mate: k>0 side to move mates in k plies, k<0 is mated in -k plies.
func Mate(k int) Score {
	if k > 0 {
		return Score{Class: 3, K: k}
	}
	return Score{Class: 1, K: -k}
}

func (a Score) Less(b Score) bool {
	if a.Class != b.Class {
		return a.Class < b.Class
	}
	switch a.Class {
	case 1:
		return a.K < b.K // mated sooner is worse
	case 2:
		return a.H < b.H
	case 3:
		return a.K > b.K // mating later is worse
	}
	return false
}

func (a Score) Eq(b Score) bool { return !a.Less(b) && !b.Less(a) }

// Neg is the score seen from the other side.
func (a Score) Neg() Score {
	switch a.Class {
	case 0:
		return Won
	case 4:
		return Lost
	case 1:
		return Score{Class: 3, K: a.K}
	case 3:
		return Score{Class: 1, K: a.K}
	}
	return Heur(-a.H)
}

// Inc adds one ply of mate distance.
func (a Score) Inc() Score {
	switch a.Class {
	case 0:
		return Score{Class: 1, K: 1}
	case 4:
		return Score{Class: 3, K: 1}
	case 1, 3:
		return Score{Class: a.Class, K: a.K + 1}
	}
	return a
}

func MaxScore(a, b Score) Score {
	if a.Less(b) {
		return b
	}
	return a
}
