package ref

// Game is the reference model of a game board: the list of positions since set-up, the
// half-move clock, the full-move number and the draw events of C05, computed in the dullest
// possible way (linear scans over the whole game).
type Game struct {
	Pos     []*Pos // Pos[0] is the set-up position
	Moves   []Move // Moves[i] leads from Pos[i] to Pos[i+1]
	Clock   []int  // half-move clock at Pos[i]
	Full    []int  // full-move number at Pos[i]
	Event   []bool // a draw event (C05) occurred exactly when Pos[i] was reached
	Count   []int  // occurrences of Pos[i] in Pos[0..i]
	Castled [][2]bool
}

func NewGame(p *Pos, clock, full int) *Game {
	return &Game{Pos: []*Pos{p}, Clock: []int{clock}, Full: []int{full}, Event: []bool{false}, Count: []int{1}, Castled: [][2]bool{{false, false}}}
}

func GameFromFEN(fen string) (*Game, error) {
	p, hm, fm, err := ParseFEN(fen)
	if err != nil {
		return nil, err
	}
	return NewGame(p, hm, fm), nil
}

// Clone copies the game (used for forks).
func (g *Game) Clone() *Game {
	h := &Game{}
	h.Pos = append([]*Pos(nil), g.Pos...)
	h.Moves = append([]Move(nil), g.Moves...)
	h.Clock = append([]int(nil), g.Clock...)
	h.Full = append([]int(nil), g.Full...)
	h.Event = append([]bool(nil), g.Event...)
	h.Count = append([]int(nil), g.Count...)
	h.Castled = append([][2]bool(nil), g.Castled...)
	return h
}

func (g *Game) Cur() *Pos     { return g.Pos[len(g.Pos)-1] }
func (g *Game) CurClock() int { return g.Clock[len(g.Clock)-1] }
func (g *Game) CurFull() int  { return g.Full[len(g.Full)-1] }
func (g *Game) Len() int      { return len(g.Pos) }
func (g *Game) FEN() string   { return g.Cur().FEN(g.CurClock(), g.CurFull()) }

// SamePosition is the repetition identity of the rules: placement, side to move, castling
// rights and en-passant target square.
func SamePosition(a, b *Pos) bool {
	return a.Sq == b.Sq && a.White == b.White && a.Castle == b.Castle && a.EP == b.EP
}

// Insufficient: only K v K, K+minor v K, or kings with two bishops on same-coloured squares.
func Insufficient(p *Pos) bool {
	n := 0
	var bishops []int
	knights := 0
	for s, v := range p.Sq {
		if v == 0 {
			continue
		}
		n++
		switch abs8(v) {
		case K:
		case B:
			bishops = append(bishops, s)
		case N:
			knights++
		default:
			return false
		}
	}
	switch n {
	case 2:
		return true
	case 3:
		return len(bishops)+knights == 1
	case 4:
		if len(bishops) != 2 {
			return false
		}
		colour := func(s int) int { return (s/8 + s%8) % 2 }
		return colour(bishops[0]) == colour(bishops[1])
	}
	return false
}

// IsZeroing reports whether the move resets the half-move clock: pawn moves and captures only.
func IsZeroing(m Move) bool {
	return m.Piece == P || m.Captured != 0 || m.Kind == EnPassant
}

// Push plays a (legal) move.
func (g *Game) Push(m Move) {
	cur := g.Cur()
	nx := cur.Make(m)
	cl := g.CurClock() + 1
	if IsZeroing(m) {
		cl = 0
	}
	fm := g.CurFull()
	if !cur.White {
		fm++
	}
	cnt := 1
	for _, o := range g.Pos {
		if SamePosition(o, nx) {
			cnt++
		}
	}
	ev := cnt >= 3 || cl >= 100
	if (m.Kind == Capture || ((m.Kind == Promotion || m.Kind == CapturePromotion) && (m.Promo == B || m.Promo == N))) && Insufficient(nx) {
		ev = true
	}
	cs := g.Castled[len(g.Castled)-1]
	if m.Kind == CastleK || m.Kind == CastleQ {
		if cur.White {
			cs[0] = true
		} else {
			cs[1] = true
		}
	}
	g.Pos = append(g.Pos, nx)
	g.Moves = append(g.Moves, m)
	g.Clock = append(g.Clock, cl)
	g.Full = append(g.Full, fm)
	g.Event = append(g.Event, ev)
	g.Count = append(g.Count, cnt)
	g.Castled = append(g.Castled, cs)
}

// Pop takes the last move back. Returns false at the set-up position.
func (g *Game) Pop() bool {
	n := len(g.Pos) - 1
	if n == 0 {
		return false
	}
	g.Pos, g.Clock, g.Full, g.Event, g.Count, g.Castled = g.Pos[:n], g.Clock[:n], g.Full[:n], g.Event[:n], g.Count[:n], g.Castled[:n]
	g.Moves = g.Moves[:n-1]
	return true
}

// AnyEvent reports whether a draw event has occurred anywhere in the game so far.
func (g *Game) AnyEvent() bool {
	for _, e := range g.Event {
		if e {
			return true
		}
	}
	return false
}

// DrawNow reports whether a draw event occurred when the current position was reached.
func (g *Game) DrawNow() bool { return g.Event[len(g.Event)-1] }

// FindMove returns the legal move with the given coordinate text ("e2e4", "e7e8q").
func (p *Pos) FindMove(s string) (Move, bool) {
	for _, m := range p.Legal() {
		if m.String() == s {
			return m, true
		}
	}
	return Move{}, false
}
