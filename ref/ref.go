// Package ref (prototype): an independent, boring reference implementation of chess rules.
// Squares are 0..63 with a1=0, b1=1, ..., h8=63 (NOT morlock's numbering).
package ref

import (
	"fmt"
	"strings"
)

const (
	Empty            = 0
	P, N, B, R, Q, K = 1, 2, 3, 4, 5, 6 // white positive, black negative
)

const (
	WK = 1 << iota
	WQ
	BK
	BQ
)

type Pos struct {
	Sq     [64]int8
	White  bool // side to move
	Castle uint8
	EP     int8 // -1 if none
}

type Kind uint8

const (
	Normal Kind = iota + 1
	Push
	Jump
	EnPassant
	CastleQ
	CastleK
	Capture
	Promotion
	CapturePromotion
)

type Move struct {
	From, To int8
	Promo    int8 // piece kind 0 or N,B,R,Q
	Kind     Kind
	Piece    int8 // kind of moving piece
	Captured int8 // kind of captured piece (0 for e.p.)
}

func (m Move) String() string {
	s := sqName(m.From) + sqName(m.To)
	if m.Promo != 0 {
		s += string(" nbrq"[m.Promo-1])
	}
	return s
}

func sqName(s int8) string { return string(rune('a'+s%8)) + string(rune('1'+s/8)) }

func abs8(x int8) int8 {
	if x < 0 {
		return -x
	}
	return x
}

func ParseFEN(f string) (*Pos, int, int, error) {
	parts := strings.Fields(f)
	if len(parts) != 6 {
		return nil, 0, 0, fmt.Errorf("bad fen")
	}
	p := &Pos{EP: -1}
	r, c := 7, 0
	for _, ch := range parts[0] {
		switch {
		case ch == '/':
			r--
			c = 0
		case ch >= '1' && ch <= '8':
			c += int(ch - '0')
		default:
			idx := strings.IndexRune("PNBRQK", ch)
			v := int8(idx + 1)
			if idx < 0 {
				idx = strings.IndexRune("pnbrqk", ch)
				if idx < 0 {
					return nil, 0, 0, fmt.Errorf("bad piece")
				}
				v = -int8(idx + 1)
			}
			p.Sq[r*8+c] = v
			c++
		}
	}
	p.White = parts[1] == "w"
	for _, ch := range parts[2] {
		switch ch {
		case 'K':
			p.Castle |= WK
		case 'Q':
			p.Castle |= WQ
		case 'k':
			p.Castle |= BK
		case 'q':
			p.Castle |= BQ
		}
	}
	if parts[3] != "-" {
		p.EP = int8(parts[3][0]-'a') + 8*int8(parts[3][1]-'1')
	}
	var hm, fm int
	fmt.Sscan(parts[4], &hm)
	fmt.Sscan(parts[5], &fm)
	return p, hm, fm, nil
}

func (p *Pos) FEN(hm, fm int) string {
	var sb strings.Builder
	for r := 7; r >= 0; r-- {
		e := 0
		for c := 0; c < 8; c++ {
			v := p.Sq[r*8+c]
			if v == 0 {
				e++
				continue
			}
			if e > 0 {
				sb.WriteByte(byte('0' + e))
				e = 0
			}
			if v > 0 {
				sb.WriteByte("PNBRQK"[v-1])
			} else {
				sb.WriteByte("pnbrqk"[-v-1])
			}
		}
		if e > 0 {
			sb.WriteByte(byte('0' + e))
		}
		if r > 0 {
			sb.WriteByte('/')
		}
	}
	side := "b"
	if p.White {
		side = "w"
	}
	c := ""
	if p.Castle&WK != 0 {
		c += "K"
	}
	if p.Castle&WQ != 0 {
		c += "Q"
	}
	if p.Castle&BK != 0 {
		c += "k"
	}
	if p.Castle&BQ != 0 {
		c += "q"
	}
	if c == "" {
		c = "-"
	}
	ep := "-"
	if p.EP >= 0 {
		ep = sqName(p.EP)
	}
	return fmt.Sprintf("%s %s %s %s %d %d", sb.String(), side, c, ep, hm, fm)
}

var knightD = [8][2]int{{1, 2}, {2, 1}, {2, -1}, {1, -2}, {-1, -2}, {-2, -1}, {-2, 1}, {-1, 2}}
var kingD = [8][2]int{{1, 0}, {1, 1}, {0, 1}, {-1, 1}, {-1, 0}, {-1, -1}, {0, -1}, {1, -1}}
var rookD = [4][2]int{{1, 0}, {-1, 0}, {0, 1}, {0, -1}}
var bishD = [4][2]int{{1, 1}, {1, -1}, {-1, 1}, {-1, -1}}

func on(f, r int) bool { return f >= 0 && f < 8 && r >= 0 && r < 8 }

// Attacked reports whether square s is attacked by the given colour (walks outward from s).
func (p *Pos) Attacked(s int, byWhite bool) bool {
	sign := int8(1)
	if !byWhite {
		sign = -1
	}
	f, r := s%8, s/8
	// pawns: a white pawn on (f±1, r-1) attacks (f, r)
	pr := r - 1
	if !byWhite {
		pr = r + 1
	}
	for _, df := range []int{-1, 1} {
		if on(f+df, pr) && p.Sq[pr*8+f+df] == sign*P {
			return true
		}
	}
	for _, d := range knightD {
		if on(f+d[0], r+d[1]) && p.Sq[(r+d[1])*8+f+d[0]] == sign*N {
			return true
		}
	}
	for _, d := range kingD {
		if on(f+d[0], r+d[1]) && p.Sq[(r+d[1])*8+f+d[0]] == sign*K {
			return true
		}
	}
	for _, d := range rookD {
		for x, y := f+d[0], r+d[1]; on(x, y); x, y = x+d[0], y+d[1] {
			if v := p.Sq[y*8+x]; v != 0 {
				if v == sign*R || v == sign*Q {
					return true
				}
				break
			}
		}
	}
	for _, d := range bishD {
		for x, y := f+d[0], r+d[1]; on(x, y); x, y = x+d[0], y+d[1] {
			if v := p.Sq[y*8+x]; v != 0 {
				if v == sign*B || v == sign*Q {
					return true
				}
				break
			}
		}
	}
	return false
}

func (p *Pos) KingSq(white bool) int {
	want := int8(K)
	if !white {
		want = -K
	}
	for i, v := range p.Sq {
		if v == want {
			return i
		}
	}
	return -1
}

func (p *Pos) InCheck(white bool) bool {
	k := p.KingSq(white)
	return k >= 0 && p.Attacked(k, !white)
}

func (p *Pos) pseudo() []Move {
	var out []Move
	sign := int8(1)
	if !p.White {
		sign = -1
	}
	add := func(m Move) { out = append(out, m) }
	for s := 0; s < 64; s++ {
		v := p.Sq[s] * sign
		if v <= 0 {
			continue
		}
		f, r := s%8, s/8
		switch v {
		case P:
			dir, start, last := 1, 1, 7
			if !p.White {
				dir, start, last = -1, 6, 0
			}
			emit := func(to int, kind Kind, cap int8) {
				if to/8 == last {
					k := Promotion
					if kind == Capture {
						k = CapturePromotion
					}
					for _, pr := range []int8{Q, R, N, B} {
						add(Move{From: int8(s), To: int8(to), Promo: pr, Kind: k, Piece: P, Captured: cap})
					}
				} else {
					add(Move{From: int8(s), To: int8(to), Kind: kind, Piece: P, Captured: cap})
				}
			}
			if on(f, r+dir) && p.Sq[(r+dir)*8+f] == 0 {
				emit((r+dir)*8+f, Push, 0)
				if r == start && p.Sq[(r+2*dir)*8+f] == 0 {
					add(Move{From: int8(s), To: int8((r+2*dir)*8 + f), Kind: Jump, Piece: P})
				}
			}
			for _, df := range []int{-1, 1} {
				if !on(f+df, r+dir) {
					continue
				}
				to := (r+dir)*8 + f + df
				if t := p.Sq[to] * sign; t < 0 {
					emit(to, Capture, -t)
				} else if int8(to) == p.EP && p.Sq[to] == 0 {
					add(Move{From: int8(s), To: int8(to), Kind: EnPassant, Piece: P})
				}
			}
		case N, K:
			ds := knightD
			if v == K {
				ds = kingD
			}
			for _, d := range ds {
				if !on(f+d[0], r+d[1]) {
					continue
				}
				to := (r+d[1])*8 + f + d[0]
				if t := p.Sq[to] * sign; t == 0 {
					add(Move{From: int8(s), To: int8(to), Kind: Normal, Piece: v})
				} else if t < 0 {
					add(Move{From: int8(s), To: int8(to), Kind: Capture, Piece: v, Captured: -t})
				}
			}
		default:
			var ds [][2]int
			if v == R || v == Q {
				ds = append(ds, rookD[:]...)
			}
			if v == B || v == Q {
				ds = append(ds, bishD[:]...)
			}
			for _, d := range ds {
				for x, y := f+d[0], r+d[1]; on(x, y); x, y = x+d[0], y+d[1] {
					to := y*8 + x
					t := p.Sq[to] * sign
					if t == 0 {
						add(Move{From: int8(s), To: int8(to), Kind: Normal, Piece: v})
						continue
					}
					if t < 0 {
						add(Move{From: int8(s), To: int8(to), Kind: Capture, Piece: v, Captured: -t})
					}
					break
				}
			}
		}
	}
	// castling
	if p.White {
		if p.Castle&WK != 0 && p.Sq[4] == K && p.Sq[7] == R && p.Sq[5] == 0 && p.Sq[6] == 0 &&
			!p.Attacked(4, false) && !p.Attacked(5, false) && !p.Attacked(6, false) {
			add(Move{From: 4, To: 6, Kind: CastleK, Piece: K})
		}
		if p.Castle&WQ != 0 && p.Sq[4] == K && p.Sq[0] == R && p.Sq[1] == 0 && p.Sq[2] == 0 && p.Sq[3] == 0 &&
			!p.Attacked(4, false) && !p.Attacked(3, false) && !p.Attacked(2, false) {
			add(Move{From: 4, To: 2, Kind: CastleQ, Piece: K})
		}
	} else {
		if p.Castle&BK != 0 && p.Sq[60] == -K && p.Sq[63] == -R && p.Sq[61] == 0 && p.Sq[62] == 0 &&
			!p.Attacked(60, true) && !p.Attacked(61, true) && !p.Attacked(62, true) {
			add(Move{From: 60, To: 62, Kind: CastleK, Piece: K})
		}
		if p.Castle&BQ != 0 && p.Sq[60] == -K && p.Sq[56] == -R && p.Sq[57] == 0 && p.Sq[58] == 0 && p.Sq[59] == 0 &&
			!p.Attacked(60, true) && !p.Attacked(59, true) && !p.Attacked(58, true) {
			add(Move{From: 60, To: 58, Kind: CastleQ, Piece: K})
		}
	}
	return out
}

// Make applies a pseudo-legal move and returns the successor (no legality check).
func (p *Pos) Make(m Move) *Pos {
	q := *p
	v := q.Sq[m.From]
	q.Sq[m.From] = 0
	if m.Kind == EnPassant {
		if p.White {
			q.Sq[m.To-8] = 0
		} else {
			q.Sq[m.To+8] = 0
		}
	}
	if m.Promo != 0 {
		if v > 0 {
			v = m.Promo
		} else {
			v = -m.Promo
		}
	}
	q.Sq[m.To] = v
	switch m.Kind {
	case CastleK:
		if p.White {
			q.Sq[7], q.Sq[5] = 0, R
		} else {
			q.Sq[63], q.Sq[61] = 0, -R
		}
	case CastleQ:
		if p.White {
			q.Sq[0], q.Sq[3] = 0, R
		} else {
			q.Sq[56], q.Sq[59] = 0, -R
		}
	}
	q.EP = -1
	if m.Kind == Jump {
		q.EP = (m.From + m.To) / 2
	}
	for _, s := range []int8{m.From, m.To} {
		switch s {
		case 4:
			q.Castle &^= WK | WQ
		case 0:
			q.Castle &^= WQ
		case 7:
			q.Castle &^= WK
		case 60:
			q.Castle &^= BK | BQ
		case 56:
			q.Castle &^= BQ
		case 63:
			q.Castle &^= BK
		}
	}
	q.White = !p.White
	return &q
}

// Legal returns all legal moves.
func (p *Pos) Legal() []Move {
	var out []Move
	for _, m := range p.pseudo() {
		if q := p.Make(m); !q.InCheck(p.White) {
			out = append(out, m)
		}
	}
	return out
}

func (p *Pos) Perft(d int) int64 {
	if d == 0 {
		return 1
	}
	var n int64
	for _, m := range p.Legal() {
		if d == 1 {
			n++
		} else {
			n += p.Make(m).Perft(d - 1)
		}
	}
	return n
}

// Attackers lists the squares of the pieces of the given colour that attack square s
// (pawns diagonally; en passant is not an attack on a square).
func (p *Pos) Attackers(s int, byWhite bool) []int {
	var out []int
	sign := int8(1)
	if !byWhite {
		sign = -1
	}
	f, r := s%8, s/8
	pr := r - 1
	if !byWhite {
		pr = r + 1
	}
	for _, df := range []int{-1, 1} {
		if on(f+df, pr) && p.Sq[pr*8+f+df] == sign*P {
			out = append(out, pr*8+f+df)
		}
	}
	for _, d := range knightD {
		if on(f+d[0], r+d[1]) && p.Sq[(r+d[1])*8+f+d[0]] == sign*N {
			out = append(out, (r+d[1])*8+f+d[0])
		}
	}
	for _, d := range kingD {
		if on(f+d[0], r+d[1]) && p.Sq[(r+d[1])*8+f+d[0]] == sign*K {
			out = append(out, (r+d[1])*8+f+d[0])
		}
	}
	for i, d := range kingD { // the eight ray directions
		straight := i%2 == 0
		for x, y := f+d[0], r+d[1]; on(x, y); x, y = x+d[0], y+d[1] {
			if v := p.Sq[y*8+x]; v != 0 {
				if v == sign*Q || (straight && v == sign*R) || (!straight && v == sign*B) {
					out = append(out, y*8+x)
				}
				break
			}
		}
	}
	return out
}

// Pin is a piece shielding a target from an enemy slider on a common line.
type Pin struct{ Attacker, Pinned, Target int }

// PinsOn lists the pins against the piece on square target: along each ray the first occupied
// square holds a piece of the target's colour and the next occupied square an enemy slider
// that moves along that ray.
func (p *Pos) PinsOn(target int) []Pin {
	var out []Pin
	v := p.Sq[target]
	if v == 0 {
		return nil
	}
	sign := int8(1)
	if v < 0 {
		sign = -1
	}
	f, r := target%8, target/8
	for i, d := range kingD {
		straight := i%2 == 0
		pinned := -1
		for x, y := f+d[0], r+d[1]; on(x, y); x, y = x+d[0], y+d[1] {
			w := p.Sq[y*8+x]
			if w == 0 {
				continue
			}
			if pinned < 0 {
				if w*sign > 0 {
					pinned = y*8 + x
					continue
				}
				break
			}
			if w == -sign*Q || (straight && w == -sign*R) || (!straight && w == -sign*B) {
				out = append(out, Pin{Attacker: y*8 + x, Pinned: pinned, Target: target})
			}
			break
		}
	}
	return out
}
